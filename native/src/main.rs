// Native stage of the checks, built from /repo's working tree with RUSTFLAGS="--cfg raptorq_verif":
// runs the real code on concrete inputs and prints what it did (derived parameters, tuples,
// operation programs emitted by the PI solver, packets).
use raptorq::verif_hooks as vh;
use raptorq::{EncodingPacket, ObjectTransmissionInformation, PayloadId, SourceBlockDecoder, SourceBlockEncoder,
              SourceBlockEncodingPlan};
use std::io::Write;
use std::panic;

fn arg<T: std::str::FromStr>(a: &[String], i: usize) -> T
where
    T::Err: std::fmt::Debug,
{
    a[i].parse::<T>().unwrap()
}

fn catch<F: FnOnce() -> String + panic::UnwindSafe>(f: F) -> String {
    panic::set_hook(Box::new(|_| {}));
    match panic::catch_unwind(f) {
        Ok(s) => s,
        Err(e) => {
            let msg = if let Some(s) = e.downcast_ref::<String>() {
                s.clone()
            } else if let Some(s) = e.downcast_ref::<&str>() {
                s.to_string()
            } else {
                "?".to_string()
            };
            format!("panic {}", msg.replace('\n', " "))
        }
    }
}

fn hex(b: &[u8]) -> String {
    b.iter().map(|x| format!("{:02x}", x)).collect()
}

fn unhex(s: &str) -> Vec<u8> {
    (0..s.len() / 2).map(|i| u8::from_str_radix(&s[2 * i..2 * i + 2], 16).unwrap()).collect()
}

fn fmt_ops(p: &vh::PlainOps) -> String {
    // ops: "k,d,s,c;..."   reorders: "pos:i i i|..."
    let ops: Vec<String> = p.ops.iter().map(|(k, d, s, c)| format!("{},{},{},{}", k, d, s, c)).collect();
    let re: Vec<String> = p
        .reorders
        .iter()
        .map(|(pos, o)| format!("{}:{}", pos, o.iter().map(|x| x.to_string()).collect::<Vec<_>>().join(" ")))
        .collect();
    format!("OPS {}\nREORDER {}", ops.join(";"), re.join("|"))
}

fn fmt_records(recs: &[vh::SolverRecord]) -> String {
    let mut out = String::new();
    for r in recs {
        out.push_str(&format!(
            "RECORD k={} rows={} cols={} hdpc={} t={} finished={} solved={}\nD {}\n",
            r.num_source_symbols, r.rows, r.cols, r.has_hdpc as u8, r.symbol_size, r.finished as u8,
            r.result.is_some() as u8, hex(&r.d_before)
        ));
        if let Some(p) = &r.result {
            out.push_str(&fmt_ops(p));
            out.push('\n');
        }
        out.push_str("END\n");
    }
    out
}

fn main() {
    let a: Vec<String> = std::env::args().skip(1).collect();
    let out = match a[0].as_str() {
        "derive" => catch(|| {
            let o = vh::generate_encoding_parameters(arg(&a, 1), arg(&a, 2), arg(&a, 3));
            format!("derived {} {} {} {} {}", o.transfer_length(), o.symbol_size(), o.source_blocks(), o.sub_blocks(), o.symbol_alignment())
        }),
        // tuple X W J P1
        "tuple" => catch(|| {
            let t = vh::intermediate_tuple(arg(&a, 1), arg(&a, 2), arg(&a, 3), arg(&a, 4));
            format!("tuple {} {} {} {} {} {}", t.0, t.1, t.2, t.3, t.4, t.5)
        }),
        // encplan K threshold  : direct solve on tagged data (T=4) with explicit threshold + ops; also the public plan
        "encsolve" => catch(|| {
            let k: usize = arg(&a, 1);
            let thr: u32 = arg(&a, 2);
            let t: usize = arg(&a, 3);
            let syms: Vec<Vec<u8>> = (0..k).map(|i| (0..t).map(|b| ((i * 131 + b * 29 + 17) % 251) as u8).collect()).collect();
            vh::start_recording();
            let r = vh::gen_intermediate_symbols_with_threshold(&syms, t, thr);
            let recs = vh::take_records();
            match r {
                Some((c, ops)) => {
                    let cs: Vec<String> = c.iter().map(|x| hex(x)).collect();
                    format!("solved\nSRC {}\nC {}\n{}\n{}", syms.iter().map(|x| hex(x)).collect::<Vec<_>>().join(","), cs.join(","), fmt_ops(&ops), fmt_records(&recs))
                }
                None => format!("unsolved\n{}", fmt_records(&recs)),
            }
        }),
        // csolve K T : intermediate symbols of the public encoder path on tagged data, without the (huge) operation list
        "csolve" => catch(|| {
            let k: usize = arg(&a, 1);
            let t: usize = arg(&a, 2);
            let syms: Vec<Vec<u8>> = (0..k).map(|i| (0..t).map(|b| ((i * 131 + b * 29 + 17) % 251) as u8).collect()).collect();
            let data: Vec<u8> = syms.iter().flatten().copied().collect();
            let cfg = ObjectTransmissionInformation::new(data.len() as u64, t as u16, 1, 1, 1);
            let enc = SourceBlockEncoder::new(0, &cfg, &data);
            let c = vh::intermediate_symbols_of(&enc);
            let rp = enc.repair_packets(0, 2);
            format!("csolved\nSRC {}\nC {}\nREPAIR {}", syms.iter().map(|x| hex(x)).collect::<Vec<_>>().join(","),
                    c.iter().map(|x| hex(x)).collect::<Vec<_>>().join(","), rp.iter().map(|p| hex(p.data())).collect::<Vec<_>>().join(","))
        }),
        // plan K : SourceBlockEncodingPlan::generate(K) operations; and replay of it on tagged data T
        "plan" => catch(|| {
            let k: usize = arg(&a, 1);
            let t: usize = arg(&a, 2);
            let plan = SourceBlockEncodingPlan::generate(k as u16);
            let plan2 = SourceBlockEncodingPlan::generate(k as u16);
            let syms: Vec<Vec<u8>> = (0..k).map(|i| (0..t).map(|b| ((i * 131 + b * 29 + 17) % 251) as u8).collect()).collect();
            let c = vh::gen_intermediate_symbols_from_plan(&syms, t, &plan);
            let cs: Vec<String> = c.iter().map(|x| hex(x)).collect();
            format!("plan count={} deterministic={}\nSRC {}\nC {}\n{}", vh::plan_symbol_count(&plan), (plan == plan2) as u8,
                    syms.iter().map(|x| hex(x)).collect::<Vec<_>>().join(","), cs.join(","), fmt_ops(&vh::plan_operations(&plan)))
        }),
        // decode-seq K T thr mode esi,esi,... : feed packets one at a time to a SourceBlockDecoder and record every solver run.
        //   mode=tag : payload of ESI e is the 4-byte big-endian tag e+1 repeated (layout discovery; T must be a multiple of 4)
        //   mode=real: payloads come from the real SourceBlockEncoder over the data pattern (i*89+41)^(i>>2)
        "decode-seq" => catch(|| {
            let k: u64 = arg(&a, 1);
            let t: u16 = arg(&a, 2);
            let thr: u32 = arg(&a, 3);
            let real = a[4] == "real";
            let cfg = ObjectTransmissionInformation::new(k * t as u64, t, 1, 1, 1);
            let data: Vec<u8> = (0..(k as usize * t as usize)).map(|i| (((i * 89 + 41) ^ (i >> 2)) & 0xFF) as u8).collect();
            let enc = if real { Some(SourceBlockEncoder::new(0, &cfg, &data)) } else { None };
            let mut dec = SourceBlockDecoder::new(0, &cfg, k * t as u64);
            dec.set_sparse_threshold(thr);
            let mut out = format!("DATA {}\n", hex(&data));
            // batches are separated by '|': every batch is ONE call of decode() with all its packets
            for (i, batch) in a[5].split('|').enumerate() {
                let mut packets = vec![];
                for e in batch.split(',') {
                    let esi: u32 = e.parse().unwrap();
                    let payload: Vec<u8> = match &enc {
                        Some(enc) => {
                            if (esi as u64) < k {
                                enc.source_packets()[esi as usize].data().to_vec()
                            } else {
                                enc.repair_packets(esi - k as u32, 1)[0].data().to_vec()
                            }
                        }
                        None => (0..t as usize).map(|b| ((esi + 1) >> (8 * (3 - (b % 4)))) as u8).collect(),
                    };
                    packets.push(EncodingPacket::new(PayloadId::new(0, esi), payload));
                }
                vh::start_recording();
                let r = dec.decode(packets);
                let recs = vh::take_records();
                out.push_str(&format!("STEP {} esi={} result={}\n{}", i, batch.replace(',', "+"), match &r { Some(d) => hex(d), None => "none".to_string() }, fmt_records(&recs)));
                if r.is_some() {
                    break;
                }
            }
            out
        }),
        // encode K T hexdata esis...  : real SourceBlockEncoder packets (source + listed ESIs) and intermediate symbols
        "encode" => catch(|| {
            let t: u16 = arg(&a, 1);
            let data = unhex(&a[2]);
            let k = data.len() / t as usize;
            let cfg = ObjectTransmissionInformation::new(data.len() as u64, t, 1, 1, 1);
            let enc = SourceBlockEncoder::new(0, &cfg, &data);
            let mut v: Vec<String> = enc.source_packets().iter().map(|p| format!("{}:{}", p.payload_id().encoding_symbol_id(), hex(p.data()))).collect();
            for e in &a[3..] {
                let esi: u32 = e.parse().unwrap();
                let ps = enc.repair_packets(esi - k as u32, 1);
                v.push(format!("{}:{}", ps[0].payload_id().encoding_symbol_id(), hex(ps[0].data())));
            }
            let c = vh::intermediate_symbols_of(&enc);
            format!("packets {}\nC {}", v.join(","), c.iter().map(|x| hex(x)).collect::<Vec<_>>().join(","))
        }),
        // object-packets F T Z N Al R : all packets of Encoder::new over bytes (i*53+11)^(i>>3), R repair packets per block
        "object-packets" => catch(|| {
            let f: usize = arg(&a, 1);
            let data: Vec<u8> = (0..f).map(|i| (((i * 53 + 11) ^ (i >> 3)) & 0xFF) as u8).collect();
            let cfg = ObjectTransmissionInformation::new(f as u64, arg(&a, 2), arg(&a, 3), arg(&a, 4), arg(&a, 5));
            let enc = raptorq::Encoder::new(&data, cfg);
            let v: Vec<String> = enc
                .get_encoded_packets(arg(&a, 6))
                .iter()
                .map(|p| format!("{}:{}:{}", p.payload_id().source_block_number(), p.payload_id().encoding_symbol_id(), hex(p.data())))
                .collect();
            // and the decoder's view of the same packets (source packets only, reversed order)
            let mut dec = raptorq::Decoder::new(cfg);
            let mut res = None;
            for p in enc.get_encoded_packets(0).into_iter().rev() {
                res = dec.decode(p);
            }
            format!("object {}\nDECODED {}", v.join(","), match res { Some(d) => hex(&d), None => "none".to_string() })
        }),
        // slab-ops T COUNT : the run-time dispatched kernels on symbols that sit at every byte alignment (symbol i starts at i*T):
        // a fixed pseudo-random sequence of add_assign / fma / mulassign_scalar operations; prints the final slab
        "slab-ops" => catch(|| {
            let t: usize = arg(&a, 1);
            let count: usize = arg(&a, 2);
            let mut st: u64 = 0x9E37_79B9_7F4A_7C15 ^ (t as u64);
            let mut next = || {
                st = st.wrapping_mul(6364136223846793005).wrapping_add(1442695040888963407);
                (st >> 33) as usize
            };
            let symbols: Vec<raptorq::Symbol> = (0..count).map(|_| raptorq::Symbol::new((0..t).map(|_| next() as u8).collect())).collect();
            let init: Vec<String> = symbols.iter().map(|x| hex(x.as_bytes())).collect();
            let mut slab = raptorq::SymbolSlab::from_symbols(symbols, t);
            let mut ops = vec![];
            for _ in 0..(4 * count) {
                let d = next() % count;
                let mut s2 = next() % count;
                if s2 == d {
                    s2 = (d + 1) % count;
                }
                let c = (next() % 254 + 2) as u8;
                match next() % 3 {
                    0 => { slab.add_assign(d, s2); ops.push(format!("0,{},{},1", d, s2)); }
                    1 => { slab.fma(d, s2, &raptorq::Octet::new(c)); ops.push(format!("2,{},{},{}", d, s2, c)); }
                    _ => { slab.mulassign_scalar(d, &raptorq::Octet::new(c)); ops.push(format!("1,{},0,{}", d, c)); }
                }
            }
            let fin: Vec<String> = (0..count).map(|i| hex(slab.get(i))).collect();
            format!("slab\nINIT {}\nOPS {}\nFINAL {}", init.join(","), ops.join(";"), fin.join(","))
        }),
        other => format!("unknown sub-command {}", other),
    };
    let stdout = std::io::stdout();
    let mut h = stdout.lock();
    writeln!(h, "RESULT {}", out).unwrap();
}
