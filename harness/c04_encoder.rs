// C04-(2) / C09-(iv) — appended to src/encoder.rs of the scratch overlay (engine E1, no_std flavour so
// that `add_assign` is the portable kernel; the SIMD kernels are covered by C11).
//
// Which intermediate symbols does `enc_into` xor together?  The slab holds the 27 intermediate symbols
// of a K'=10 block as one-hot 32-bit patterns (symbol i = bit i), so the 4 result bytes ARE the GF(2)
// coefficient vector of the linear combination the code formed.  It must equal the coefficient vector
// of an independent transcription of Enc[] (RFC 6330 §5.3.5.3) for EVERY in-range tuple.
#[cfg(kani)]
mod verif_c04 {
    use super::*;

    const KP: u32 = 10; // K' = 10: S=7, H=10, W=17, L=27, P=10, P1=11
    const L: usize = 27;
    const T: usize = 4;

    fn one_hot_slab() -> SymbolSlab {
        let mut slab = SymbolSlab::with_zeros(L, T);
        let mut i = 0;
        while i < L {
            slab.get_mut(i).copy_from_slice(&(1u32 << i).to_le_bytes());
            i += 1;
        }
        slab
    }

    fn rfc_mask(w: u32, p: u32, p1: u32, t: (u32, u32, u32, u32, u32, u32)) -> u32 {
        let (d, a, b, d1, a1, b1) = t;
        let mut mask = 0u32;
        let mut bb = b;
        mask ^= 1 << bb;
        let mut j = 1;
        while j < d {
            bb = (bb + a) % w;
            mask ^= 1 << bb;
            j += 1;
        }
        let mut c1 = b1;
        while c1 >= p {
            c1 = (c1 + a1) % p1;
        }
        mask ^= 1 << (w + c1);
        let mut j = 1;
        while j < d1 {
            c1 = (c1 + a1) % p1;
            while c1 >= p {
                c1 = (c1 + a1) % p1;
            }
            mask ^= 1 << (w + c1);
            j += 1;
        }
        mask
    }

    fn any_tuple(w: u32, p1: u32) -> (u32, u32, u32, u32, u32, u32) {
        let d: u32 = kani::any();
        let a: u32 = kani::any();
        let b: u32 = kani::any();
        let d1: u32 = kani::any();
        let a1: u32 = kani::any();
        let b1: u32 = kani::any();
        kani::assume(1 <= d && d <= 15); // min(30, W-2)
        kani::assume(1 <= a && a < w && b < w);
        kani::assume(d1 == 2 || d1 == 3);
        kani::assume(1 <= a1 && a1 < p1 && b1 < p1);
        (d, a, b, d1, a1, b1)
    }

    #[kani::proof]
    #[kani::unwind(30)]
    fn c04_enc_into_selects_rfc_symbols() {
        let slab = one_hot_slab();
        let w = num_lt_symbols(KP);
        let p = num_pi_symbols(KP);
        let p1 = calculate_p1(KP);
        assert!(w == 17 && p == 10 && p1 == 11);
        let t = any_tuple(w, p1);
        let mut dest = [0xA5u8; T];
        enc_into(&mut dest, KP, &slab, t);
        assert!(u32::from_le_bytes(dest) == rfc_mask(w, p, p1, t), "C04_ENC_EQUALS_RFC_XOR");
        kani::cover!(t.0 == 15 && t.3 == 3, "reachable: largest degree");
        core::mem::forget(slab);
    }

    // enc_indices (what the decoder's rebuild and the constraint-matrix generation use) visits the same symbols
    #[kani::proof]
    #[kani::unwind(30)]
    fn c04_enc_indices_selects_rfc_symbols() {
        let (w, p, p1) = (17, 10, 11);
        let t = any_tuple(w, p1);
        let mut mask = 0u32;
        let mut count = 0u32;
        crate::constraint_matrix::enc_indices(t, w, p, p1, |i| {
            mask ^= 1u32 << i;
            count += 1;
        });
        assert!(mask == rfc_mask(w, p, p1, t), "C04_ENC_INDICES_EQUALS_RFC");
        assert!(count == t.0 + t.3, "C04_ENC_INDICES_COUNT");
        // W and P1 prime => no index is visited twice: the xor-mask has exactly d + d1 bits
        assert!(mask.count_ones() == count, "C04_ENC_INDICES_DISTINCT");
        kani::cover!(t.0 == 15 && t.3 == 3, "reachable");
    }

    // the same through a permuted slab (the encoder's slab carries the solver's reorder map)
    #[kani::proof]
    #[kani::unwind(30)]
    fn c04_enc_into_through_reorder_map() {
        let mut slab = SymbolSlab::with_zeros(L, T);
        let mut order = Vec::with_capacity(L);
        let mut i = 0;
        while i < L {
            // logical i lives at physical (7*i+3) mod 27: a fixed non-trivial permutation
            let phys = (7 * i + 3) % L;
            order.push(phys);
            i += 1;
        }
        let mut i = 0;
        while i < L {
            slab.get_mut(order[i]).copy_from_slice(&(1u32 << i).to_le_bytes());
            i += 1;
        }
        slab.set_reorder(order);
        let (w, p, p1) = (17, 10, 11);
        let t = any_tuple(w, p1);
        let mut dest = [0u8; T];
        enc_into(&mut dest, KP, &slab, t);
        assert!(u32::from_le_bytes(dest) == rfc_mask(w, p, p1, t), "C04_ENC_EQUALS_RFC_XOR_REORDERED");
        kani::cover!(t.0 == 1, "reachable");
        core::mem::forget(slab);
    }
}
