// C13 — appended to src/base.rs of the scratch overlay (engine E1).
#[cfg(kani)]
mod verif_c13 {
    use super::*;

    // all 2^32 (sbn, esi) values and all 2^32 byte strings
    #[kani::proof]
    fn c13_payload_id() {
        let sbn: u8 = kani::any();
        let esi: u32 = kani::any();
        kani::assume(esi < (1 << 24));
        let p = PayloadId::new(sbn, esi);
        assert!(p.source_block_number() == sbn && p.encoding_symbol_id() == esi, "C13_PID_ACCESSORS");
        let b = p.serialize();
        assert!(b[0] == sbn, "C13_PID_SBN");
        assert!(b[1] == (esi >> 16) as u8 && b[2] == (esi >> 8) as u8 && b[3] == esi as u8, "C13_PID_ESI_BE");
        let q = PayloadId::deserialize(&b);
        assert!(q == p, "C13_PID_ROUNDTRIP");
        let raw: [u8; 4] = kani::any();
        let r = PayloadId::deserialize(&raw);
        assert!(r.encoding_symbol_id() < (1 << 24), "C13_PID_PARSED_24BIT");
        assert!(r.source_block_number() == raw[0], "C13_PID_PARSED_SBN");
        assert!(r.encoding_symbol_id() == ((raw[1] as u32) * 65536 + (raw[2] as u32) * 256 + raw[3] as u32), "C13_PID_PARSED_ESI");
        assert!(r.serialize() == raw, "C13_PID_REPARSE");
        kani::cover!(esi == 0xABCDEF && sbn == 0x12, "reachable");
    }

    #[kani::proof]
    #[kani::should_panic]
    fn c13_payload_id_rejects_25bit() {
        let esi: u32 = kani::any();
        kani::assume(esi >= (1 << 24));
        let _ = PayloadId::new(kani::any(), esi);
    }

    // all field values within their wire widths (F < 2^40), constructed directly (no validity filter)
    #[kani::proof]
    fn c13_oti_layout() {
        let f: u64 = kani::any();
        kani::assume(f < (1u64 << 40));
        let oti = ObjectTransmissionInformation {
            transfer_length: f,
            symbol_size: kani::any(),
            num_source_blocks: kani::any(),
            num_sub_blocks: kani::any(),
            symbol_alignment: kani::any(),
        };
        let b = oti.serialize();
        assert!(b[0] == (f >> 32) as u8 && b[1] == (f >> 24) as u8 && b[2] == (f >> 16) as u8
            && b[3] == (f >> 8) as u8 && b[4] == f as u8, "C13_OTI_F_40BIT_BE");
        assert!(b[5] == 0, "C13_OTI_RESERVED_ZERO");
        assert!(b[6] == (oti.symbol_size() >> 8) as u8 && b[7] == oti.symbol_size() as u8, "C13_OTI_T_BE");
        assert!(b[8] == oti.source_blocks(), "C13_OTI_Z");
        assert!(b[9] == (oti.sub_blocks() >> 8) as u8 && b[10] == oti.sub_blocks() as u8, "C13_OTI_N_BE");
        assert!(b[11] == oti.symbol_alignment(), "C13_OTI_AL");
        let back = ObjectTransmissionInformation::deserialize(&b);
        assert!(back == oti, "C13_OTI_ROUNDTRIP");
        kani::cover!(f == 0x12_3456_789A, "reachable");
    }

    // every 12-byte buffer: parse, re-serialise -> identical except the reserved byte
    #[kani::proof]
    fn c13_oti_reparse() {
        let raw: [u8; 12] = kani::any();
        let oti = ObjectTransmissionInformation::deserialize(&raw);
        assert!(oti.transfer_length() < (1u64 << 40), "C13_OTI_PARSED_40BIT");
        assert!(oti.transfer_length() == ((raw[0] as u64) << 32 | (raw[1] as u64) << 24 | (raw[2] as u64) << 16 | (raw[3] as u64) << 8 | raw[4] as u64), "C13_OTI_PARSED_F");
        assert!(oti.symbol_size() == (raw[6] as u16) * 256 + raw[7] as u16, "C13_OTI_PARSED_T");
        assert!(oti.source_blocks() == raw[8], "C13_OTI_PARSED_Z");
        assert!(oti.sub_blocks() == (raw[9] as u16) * 256 + raw[10] as u16, "C13_OTI_PARSED_N");
        assert!(oti.symbol_alignment() == raw[11], "C13_OTI_PARSED_AL");
        let b = oti.serialize();
        let mut i = 0;
        while i < 12 {
            if i != 5 {
                assert!(b[i] == raw[i], "C13_OTI_REPARSE");
            }
            i += 1;
        }
        assert!(b[5] == 0, "C13_OTI_REPARSE_RESERVED");
        kani::cover!(raw[5] == 0xFF, "reachable: nonzero reserved byte");
    }

    const MAXP: usize = 8;

    // packet = payload id || payload; one harness per payload length L (concrete length, symbolic
    // contents): `serialize` extends a Vec byte by byte, which CBMC cannot carry for a symbolic length
    fn packet_roundtrip<const L: usize>() {
        let sbn: u8 = kani::any();
        let esi: u32 = kani::any();
        kani::assume(esi < (1 << 24));
        let payload: [u8; L] = kani::any();
        let pkt = EncodingPacket::new(PayloadId::new(sbn, esi), payload.to_vec());
        let bytes = pkt.serialize();
        assert!(bytes.len() == 4 + L, "C13_PKT_LEN");
        assert!(bytes[0] == sbn && bytes[1] == (esi >> 16) as u8 && bytes[2] == (esi >> 8) as u8 && bytes[3] == esi as u8, "C13_PKT_HEADER");
        let mut i = 0;
        while i < L {
            assert!(bytes[4 + i] == payload[i], "C13_PKT_PAYLOAD");
            i += 1;
        }
        let back = EncodingPacket::deserialize(&bytes);
        assert!(back.payload_id() == pkt.payload_id(), "C13_PKT_RT_ID");
        assert!(back.data().len() == L, "C13_PKT_RT_LEN");
        let mut i = 0;
        while i < L {
            assert!(back.data()[i] == payload[i], "C13_PKT_RT_DATA");
            i += 1;
        }
        kani::cover!(esi == 0xFFFFFF, "reachable");
        core::mem::forget(pkt);
        core::mem::forget(bytes);
        core::mem::forget(back);
    }

    //@PACKET_RT_HARNESSES@

    // every buffer of 4..=12 bytes parses and re-serialises to itself
    #[kani::proof]
    #[kani::unwind(14)]
    fn c13_packet_reparse() {
        let len: usize = kani::any();
        kani::assume(len >= 4 && len <= 4 + MAXP);
        let raw: [u8; 4 + MAXP] = kani::any();
        let pkt = EncodingPacket::deserialize(&raw[..len]);
        let (id, data) = pkt.clone().split();
        assert!(id.source_block_number() == raw[0], "C13_PKT_PARSED_SBN");
        assert!(data.len() == len - 4, "C13_PKT_PARSED_LEN");
        let out = pkt.serialize();
        assert!(out.len() == len, "C13_PKT_REPARSE_LEN");
        let mut i = 0;
        while i < len {
            assert!(out[i] == raw[i], "C13_PKT_REPARSE");
            i += 1;
        }
        kani::cover!(len == 4 + MAXP, "reachable");
        core::mem::forget(pkt);
        core::mem::forget(out);
        core::mem::forget(data);
    }

    #[kani::proof]
    #[kani::should_panic]
    fn c13_packet_short_buffer_panics() {
        let len: usize = kani::any();
        kani::assume(len < 4);
        let raw: [u8; 4] = kani::any();
        let _ = EncodingPacket::deserialize(&raw[..len]);
    }
}
