// Models of LLVM-only x86 intrinsics used as #[kani::stub]s by the C11/C12/C07 harnesses.
// This file is the single source: props/c11.py appends it to the overlay, stubcheck/ includes it
// and compares every model with the real instruction on this host (./setup.sh).
    #[cfg(feature = "std")]
    mod stubs {
        use core::arch::x86_64::*;
        // pshufb: per 128-bit lane, r[i] = if idx[i] & 0x80 != 0 { 0 } else { table[idx[i] & 15] }
        fn shuffle_lanes<const N: usize>(a: [u8; N], b: [u8; N]) -> [u8; N] {
            let mut r = [0u8; N];
            let mut i = 0;
            while i < N {
                let lane = i & !15;
                r[i] = if b[i] & 0x80 != 0 { 0 } else { a[lane + (b[i] & 0x0F) as usize] };
                i += 1;
            }
            r
        }
        pub fn mm_shuffle_epi8(a: __m128i, b: __m128i) -> __m128i {
            unsafe { core::mem::transmute(shuffle_lanes::<16>(core::mem::transmute(a), core::mem::transmute(b))) }
        }
        pub fn mm256_shuffle_epi8(a: __m256i, b: __m256i) -> __m256i {
            unsafe { core::mem::transmute(shuffle_lanes::<32>(core::mem::transmute(a), core::mem::transmute(b))) }
        }
        pub fn mm512_shuffle_epi8(a: __m512i, b: __m512i) -> __m512i {
            unsafe { core::mem::transmute(shuffle_lanes::<64>(core::mem::transmute(a), core::mem::transmute(b))) }
        }
        // BEXTR with control word: start = control[7:0], len = control[15:8]
        // vpmovdqu8 {k}{z}: byte i of the result = if bit i of k { a[i] } else { 0 }
        pub fn mm512_maskz_mov_epi8(k: u64, a: __m512i) -> __m512i {
            let a: [u8; 64] = unsafe { core::mem::transmute(a) };
            let mut r = [0u8; 64];
            let mut i = 0;
            while i < 64 {
                if (k >> i) & 1 == 1 {
                    r[i] = a[i];
                }
                i += 1;
            }
            unsafe { core::mem::transmute(r) }
        }
        pub fn bextr2_u32(a: u32, control: u32) -> u32 {
            let start = control & 0xFF;
            let len = (control >> 8) & 0xFF;
            if start >= 32 {
                return 0;
            }
            let shifted = a >> start;
            if len >= 32 { shifted } else { shifted & ((1u32 << len) - 1) }
        }
    }
