// C16 (dense half) — appended to src/matrix.rs of the scratch overlay (engine E1).
// One interface operation from an ARBITRARY representable state: the bit-packed matrix with arbitrary
// word contents (including the unused high bits of each row's last word) is compared, cell by cell
// through a symbolic probe, with the abstract operation applied to the pre-state read through get().
#[cfg(kani)]
mod verif_c16_@TAG@ {
    use super::*;

    const H: usize = @H@;
    const W: usize = @W@;
    const RW: usize = (W + 63) / 64;
    const EXTRA: usize = @EXTRA@; // words allocated beyond H*RW (new() over-allocates)

    fn any_matrix() -> (DenseBinaryMatrix, [u64; H * RW + EXTRA]) {
        let words: [u64; H * RW + EXTRA] = kani::any();
        (DenseBinaryMatrix { height: H, width: W, elements: words.to_vec() }, words)
    }

    // the abstract cell of the pre-state, independent of the code's bit_position()
    fn cell(words: &[u64; H * RW + EXTRA], r: usize, c: usize) -> bool {
        (words[r * RW + c / 64] >> (c % 64)) & 1 == 1
    }

    fn probe() -> (usize, usize) {
        let r: usize = kani::any();
        let c: usize = kani::any();
        kani::assume(r < H && c < W);
        (r, c)
    }

    #[kani::proof]
    #[kani::unwind(@UNWIND@)]
    fn c16_get_and_dims_@TAG@() {
        let (m, w) = any_matrix();
        let (r, c) = probe();
        assert!(m.height() == H && m.width() == W, "C16_DIMS");
        assert!((m.get(r, c) == Octet::one()) == cell(&w, r, c), "C16_GET");
        assert!(m.get(r, c) == Octet::one() || m.get(r, c) == Octet::zero(), "C16_GET_BINARY");
        kani::cover!(r == H - 1 && c == W - 1, "reachable");
        core::mem::forget(m);
    }

    #[kani::proof]
    #[kani::unwind(@UNWIND@)]
    fn c16_new_is_zero_@TAG@() {
        let m = DenseBinaryMatrix::new(H, W, kani::any());
        let (r, c) = probe();
        assert!(m.height() == H && m.width() == W, "C16_NEW_DIMS");
        assert!(m.get(r, c) == Octet::zero(), "C16_NEW_ZERO");
        assert!(m.elements.len() >= H * RW, "C16_NEW_ALLOCATES_ENOUGH");
        kani::cover!(true, "reachable");
        core::mem::forget(m);
    }

    #[kani::proof]
    #[kani::unwind(@UNWIND@)]
    fn c16_set_@TAG@() {
        let (mut m, w) = any_matrix();
        let i: usize = kani::any();
        let j: usize = kani::any();
        kani::assume(i < H && j < W);
        let v: u8 = kani::any();
        kani::assume(v <= 1);
        m.set(i, j, Octet::new(v));
        let (r, c) = probe();
        let want = if r == i && c == j { v == 1 } else { cell(&w, r, c) };
        assert!((m.get(r, c) == Octet::one()) == want, "C16_SET");
        kani::cover!(i == H - 1 && j == W - 1 && v == 1, "reachable");
        core::mem::forget(m);
    }

    #[kani::proof]
    #[kani::unwind(@UNWIND@)]
    fn c16_swap_rows_@TAG@() {
        let (mut m, w) = any_matrix();
        let i: usize = kani::any();
        let j: usize = kani::any();
        kani::assume(i < H && j < H);
        m.swap_rows(i, j);
        let (r, c) = probe();
        let src = if r == i { j } else if r == j { i } else { r };
        assert!((m.get(r, c) == Octet::one()) == cell(&w, src, c), "C16_SWAP_ROWS");
        kani::cover!(i != j, "reachable");
        core::mem::forget(m);
    }

    #[kani::proof]
    #[kani::unwind(@UNWIND@)]
    fn c16_swap_columns_@TAG@() {
        let (mut m, w) = any_matrix();
        let i: usize = kani::any();
        let j: usize = kani::any();
        let hint: usize = kani::any();
        kani::assume(i < W && j < W && hint <= H);
        // interface precondition: rows above the hint have identical values in both columns
        let mut r0 = 0;
        while r0 < H {
            if r0 < hint {
                kani::assume(cell(&w, r0, i) == cell(&w, r0, j));
            }
            r0 += 1;
        }
        m.swap_columns(i, j, hint);
        let (r, c) = probe();
        let src = if c == i { j } else if c == j { i } else { c };
        assert!((m.get(r, c) == Octet::one()) == cell(&w, r, src), "C16_SWAP_COLUMNS");
        kani::cover!(i != j && hint < H, "reachable: a real swap below the hint");
        core::mem::forget(m);
    }

    #[kani::proof]
    #[kani::unwind(@UNWIND@)]
    fn c16_add_assign_rows_@TAG@() {
        let (mut m, w) = any_matrix();
        let dest: usize = kani::any();
        let src: usize = kani::any();
        let start_col: usize = kani::any();
        kani::assume(dest < H && src < H && dest != src && start_col <= W);
        m.add_assign_rows(dest, src, start_col);
        let (r, c) = probe();
        if r != dest {
            assert!((m.get(r, c) == Octet::one()) == cell(&w, r, c), "C16_ADD_ROWS_FRAME");
        } else if c >= start_col {
            // cells left of start_col in the destination row are undefined by the interface
            assert!((m.get(r, c) == Octet::one()) == (cell(&w, dest, c) ^ cell(&w, src, c)), "C16_ADD_ROWS");
        }
        kani::cover!(r == dest && c >= start_col && c == W - 1, "reachable");
        core::mem::forget(m);
    }

    #[kani::proof]
    #[kani::unwind(@UNWIND@)]
    fn c16_resize_@TAG@() {
        let (mut m, w) = any_matrix();
        let nh: usize = kani::any();
        let nw: usize = kani::any();
        kani::assume(1 <= nh && nh <= H && 1 <= nw && nw <= W);
        m.resize(nh, nw);
        assert!(m.height() == nh && m.width() == nw, "C16_RESIZE_DIMS");
        let (r, c) = probe();
        if r < nh && c < nw {
            assert!((m.get(r, c) == Octet::one()) == cell(&w, r, c), "C16_RESIZE_KEEPS_CELLS");
        }
        kani::cover!(nw < W && nh == H, "reachable: narrower matrix");
        core::mem::forget(m);
    }

    #[kani::proof]
    #[kani::unwind(@UNWIND@)]
    fn c16_count_ones_@TAG@() {
        let (m, w) = any_matrix();
        let row: usize = kani::any();
        let s: usize = kani::any();
        let e: usize = kani::any();
        kani::assume(row < H && s <= e && e <= W);
        let got = m.count_ones(row, s, e);
        let mut want = 0usize;
        let mut c = 0;
        while c < W {
            if c >= s && c < e && cell(&w, row, c) {
                want += 1;
            }
            c += 1;
        }
        assert!(got == want, "C16_COUNT_ONES");
        kani::cover!(s < e && e == W, "reachable: range up to the width");
        core::mem::forget(m);
    }

    #[kani::proof]
    #[kani::unwind(@UNWIND@)]
    fn c16_row_iter_@TAG@() {
        let (m, w) = any_matrix();
        let row: usize = kani::any();
        let s: usize = kani::any();
        let e: usize = kani::any();
        kani::assume(row < H && s <= e && e <= W);
        let mut it = m.get_row_iter(row, s, e);
        let mut expect_col = s;
        let mut n = 0;
        while n < W + 1 {
            match it.next() {
                Some((col, v)) => {
                    assert!(col == expect_col && col < e, "C16_ROW_ITER_ORDER");
                    assert!((v == Octet::one()) == cell(&w, row, col), "C16_ROW_ITER_VALUE");
                    expect_col += 1;
                }
                None => {
                    assert!(expect_col == e, "C16_ROW_ITER_COMPLETE");
                    break;
                }
            }
            n += 1;
        }
        kani::cover!(s + 1 < e && e == W, "reachable: iteration up to the width");
        core::mem::forget(m);
    }

    #[kani::proof]
    #[kani::unwind(@UNWIND@)]
    fn c16_ones_in_column_@TAG@() {
        let (m, w) = any_matrix();
        let col: usize = kani::any();
        let sr: usize = kani::any();
        let er: usize = kani::any();
        kani::assume(col < W && sr <= er && er <= H);
        let rows = m.get_ones_in_column(col, sr, er);
        // exactly the rows of [sr, er) with a one, ascending
        let mut k = 0;
        let mut r = 0;
        while r < H {
            if r >= sr && r < er && cell(&w, r, col) {
                assert!(k < rows.len() && rows[k] as usize == r, "C16_ONES_IN_COLUMN");
                k += 1;
            }
            r += 1;
        }
        assert!(k == rows.len(), "C16_ONES_IN_COLUMN_NO_EXTRA");
        kani::cover!(rows.len() == H, "reachable: full column");
        core::mem::forget(m);
        core::mem::forget(rows);
    }
}
