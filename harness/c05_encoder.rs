// C05 — appended to src/encoder.rs of the scratch overlay (engine E1).
#[cfg(kani)]
mod verif_c05 {
    use super::*;

    fn cfg(f: u64, t: u16, z: u8, n: u16, al: u8) -> ObjectTransmissionInformation {
        // built through the real constructor: only valid configurations pass
        ObjectTransmissionInformation::new(f, t, z, n, al)
    }

    // calculate_block_offsets for symbolic (F <= 64, T <= 8, Z <= 4): Z contiguous ranges, ZL of KL*T then ZS of KS*T bytes,
    // starting at 0, covering the object, only the last one may pass F and by less than T.
    //@OFFSET_HARNESSES@

    fn block_offsets_follow_partition(t: u16, z: u8) {
        let buf = [0u8; 64];
        let f: usize = kani::any();
        kani::assume(1 <= f && f <= 64);
        let kt = (f as u32 + t as u32 - 1) / t as u32;
        kani::assume(z as u32 <= kt);
        let config = cfg(f as u64, t, z, 1, 1);
        let blocks = calculate_block_offsets(&buf[..f], &config);
        assert!(blocks.len() == z as usize, "C05_Z_BLOCKS");
        let kl = (kt + z as u32 - 1) / z as u32;
        let ks = kt / z as u32;
        let zl = kt - ks * z as u32;
        let mut expect_start = 0usize;
        let mut i = 0;
        while i < blocks.len() {
            let (s, e) = blocks[i];
            assert!(s == expect_start, "C05_CONTIGUOUS_IN_ORDER");
            let k = if (i as u32) < zl { kl } else { ks };
            assert!(e - s == k as usize * t as usize, "C05_KL_THEN_KS_SYMBOLS");
            if i + 1 < blocks.len() {
                assert!(e <= f, "C05_ONLY_LAST_BLOCK_PADDED");
            }
            expect_start = e;
            i += 1;
        }
        assert!(expect_start >= f && expect_start - f < t as usize, "C05_COVERS_OBJECT_PAD_LT_T");
        assert!(expect_start == kt as usize * t as usize, "C05_TOTAL_KT_SYMBOLS");
        kani::cover!(z == 3 && zl == 1 && expect_start > f, "reachable: uneven blocks with padding");
        core::mem::forget(blocks);
    }
}
