// C10 — appended to src/octet.rs of the scratch overlay (engine E1). Oracle: shift-and-xor
// multiplication in GF(2)[x]/(x^8+x^4+x^3+x^2+1), independent of OCT_EXP/OCT_LOG.
#[cfg(kani)]
mod verif_c10 {
    use super::*;

    fn polymul(a: u8, b: u8) -> u8 {
        let mut acc: u16 = 0;
        let mut aa: u16 = a as u16;
        let mut i = 0;
        while i < 8 {
            if (b >> i) & 1 == 1 {
                acc ^= aa;
            }
            aa <<= 1;
            if aa & 0x100 != 0 {
                aa ^= 0x11D;
            }
            i += 1;
        }
        acc as u8
    }

    // all 2^16 operand pairs (x 2^8 accumulators for fma)
    #[kani::proof]
    #[kani::unwind(9)]
    fn c10_mul_pairs() {
        let a: u8 = kani::any();
        let b: u8 = kani::any();
        let r = polymul(a, b);
        assert!((Octet::new(a) * Octet::new(b)).byte() == r, "C10_MUL_OWNED");
        assert!((&Octet::new(a) * &Octet::new(b)).byte() == r, "C10_MUL_REF");
        assert!(OCTET_MUL[a as usize][b as usize] == r, "C10_MUL_TABLE");
        let lo = OCTET_MUL_LOW_BITS[a as usize][(b & 0x0F) as usize];
        let hi = OCTET_MUL_HI_BITS[a as usize][(b >> 4) as usize];
        assert!(lo ^ hi == r, "C10_NIBBLE_TABLES");
        // upper halves of the 32-byte nibble rows duplicate the lower halves (AVX2 lane copy)
        assert!(OCTET_MUL_LOW_BITS[a as usize][(b & 0x0F) as usize + 16] == lo, "C10_NIBBLE_LOW_DUP");
        assert!(OCTET_MUL_HI_BITS[a as usize][(b >> 4) as usize + 16] == hi, "C10_NIBBLE_HI_DUP");
        let mut f = Octet::new(kani::any());
        let f0 = f.byte();
        f.fma(&Octet::new(a), &Octet::new(b));
        assert!(f.byte() == f0 ^ r, "C10_FMA");
        if b != 0 {
            let q = Octet::new(a) / Octet::new(b);
            assert!(polymul(q.byte(), b) == a, "C10_DIV_OWNED");
            let q2 = &Octet::new(a) / &Octet::new(b);
            assert!(q2 == q, "C10_DIV_REF");
        }
        kani::cover!(a == 0x8E && b == 2 && r == 1, "reachable: 0x8E*2 = 1");
    }

    #[kani::proof]
    fn c10_add_is_xor() {
        let a: u8 = kani::any();
        let b: u8 = kani::any();
        assert!((Octet::new(a) + Octet::new(b)).byte() == a ^ b, "C10_ADD");
        assert!((&Octet::new(a) + &Octet::new(b)).byte() == a ^ b, "C10_ADD_REF");
        assert!((Octet::new(a) - Octet::new(b)).byte() == a ^ b, "C10_SUB");
        let mut x = Octet::new(a);
        x += Octet::new(b);
        assert!(x.byte() == a ^ b, "C10_ADDASSIGN");
        let mut y = Octet::new(a);
        y += &Octet::new(b);
        assert!(y.byte() == a ^ b, "C10_ADDASSIGN_REF");
        assert!(Octet::zero().byte() == 0 && Octet::one().byte() == 1, "C10_CONSTS");
        kani::cover!(a ^ b == 0xFF, "reachable");
    }

    // alpha(i) = 2^i: base case and inductive step for every i the function accepts
    #[kani::proof]
    #[kani::unwind(9)]
    fn c10_alpha() {
        assert!(Octet::alpha(0).byte() == 1, "C10_ALPHA0");
        let i: usize = kani::any();
        kani::assume(i < 255);
        assert!(Octet::alpha(i + 1).byte() == polymul(Octet::alpha(i).byte(), 2), "C10_ALPHA_STEP");
        kani::cover!(i == 254, "reachable: alpha(255)");
    }

    #[kani::proof]
    #[kani::should_panic]
    fn c10_div_by_zero_panics() {
        let a: u8 = kani::any();
        let _ = Octet::new(a) / Octet::new(0);
    }

    #[kani::proof]
    #[kani::should_panic]
    fn c10_alpha_256_panics() {
        let _ = Octet::alpha(256);
    }

    // associativity, distributivity, commutativity for a fixed first operand (thorough tier:
    // one harness per value of A, all 2^16 (b,c) symbolic)
    fn ring_laws(a: u8) {
        let b: u8 = kani::any();
        let c: u8 = kani::any();
        let (oa, ob, oc) = (Octet::new(a), Octet::new(b), Octet::new(c));
        let ab = &oa * &ob;
        let bc = &ob * &oc;
        assert!(&ab * &oc == &oa * &bc, "C10_ASSOC");
        let ac = &oa * &oc;
        assert!(&oa * &(&ob + &oc) == &ab + &ac, "C10_DISTRIB");
        assert!(ab == &ob * &oa, "C10_COMM");
        kani::cover!(b == 0xFF && c == 0x80, "reachable");
    }

    //@RING_LAW_HARNESSES@
}
