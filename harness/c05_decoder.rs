// C05 — appended to src/decoder.rs of the scratch overlay (engine E1, no_std flavour: BTreeSet).
#[cfg(kani)]
mod verif_c05_dec {
    use super::*;

    // Decoder::new creates Z block decoders: ZL of KL symbols then ZS of KS symbols, numbered 0..Z-1
    //@DECNEW_HARNESSES@

    fn decoder_new_blocks(t: u16, z: u8) {
        let f: u64 = kani::any();
        kani::assume(1 <= f && f <= 64);
        let kt = (f as u32 + t as u32 - 1) / t as u32;
        kani::assume(z as u32 <= kt);
        let config = ObjectTransmissionInformation::new(f, t, z, 1, 1);
        let dec = Decoder::new(config);
        assert!(dec.block_decoders.len() == z as usize && dec.blocks.len() == z as usize, "C05_DECODER_Z_BLOCKS");
        let kl = (kt + z as u32 - 1) / z as u32;
        let ks = kt / z as u32;
        let zl = kt - ks * z as u32;
        let i: usize = kani::any();
        kani::assume(i < z as usize);
        let b = &dec.block_decoders[i];
        assert!(b.source_block_id as usize == i, "C05_DECODER_BLOCK_NUMBER");
        assert!(b.source_block_symbols == if (i as u32) < zl { kl } else { ks }, "C05_DECODER_BLOCK_SYMBOLS");
        assert!(b.source_symbols.len() == b.source_block_symbols as usize, "C05_DECODER_SLOTS");
        assert!(b.symbol_size == t, "C05_DECODER_T");
        kani::cover!(z == 4 && zl == 2, "reachable");
        core::mem::forget(dec);
    }
}
