// C09 (i),(ii) / C12 — appended to src/symbol_slab.rs of the scratch overlay (engine E1).
#[cfg(kani)]
mod verif_c09 {
    use super::*;
    use crate::operation_vector::{SymbolOps, perform_op};

    const COUNT: usize = @COUNT@;
    const T: usize = @T@;
    const MAPPED: bool = @MAPPED@;

    fn gfmul(a: u8, b: u8) -> u8 {
        let mut acc: u16 = 0;
        let mut aa: u16 = a as u16;
        let mut i = 0;
        while i < 8 {
            if (b >> i) & 1 == 1 {
                acc ^= aa;
            }
            aa <<= 1;
            if aa & 0x100 != 0 {
                aa ^= 0x11D;
            }
            i += 1;
        }
        acc as u8
    }

    // an arbitrary slab: symbolic bytes, optional arbitrary permutation as reorder map
    fn any_slab(data: &[u8; COUNT * T]) -> (SymbolSlab, [usize; COUNT]) {
        let mut phys = [0usize; COUNT];
        let mut i = 0;
        while i < COUNT {
            phys[i] = i;
            i += 1;
        }
        let mut slab = SymbolSlab {
            data: data.to_vec(),
            count: COUNT,
            symbol_size: T,
            mapping: None,
        };
        if MAPPED {
            let perm: [usize; COUNT] = kani::any();
            let mut i = 0;
            while i < COUNT {
                kani::assume(perm[i] < COUNT);
                let mut j = 0;
                while j < i {
                    kani::assume(perm[j] != perm[i]);
                    j += 1;
                }
                i += 1;
            }
            slab.set_reorder(perm.to_vec());
            phys = perm;
        }
        (slab, phys)
    }

    // (i) get / get_mut address exactly data[phys*T .. phys*T+T]
    #[kani::proof]
    #[kani::unwind(@UNWIND@)]
    fn c09_slab_get_addresses_physical_range() {
        let data: [u8; COUNT * T] = kani::any();
        let (mut slab, phys) = any_slab(&data);
        let i: usize = kani::any();
        kani::assume(i < COUNT);
        let k: usize = kani::any();
        kani::assume(k < T);
        assert!(slab.len() == COUNT && slab.symbol_size() == T, "C09_SLAB_DIMS");
        let g = slab.get(i);
        assert!(g.len() == T, "C09_GET_LEN");
        assert!(g[k] == data[phys[i] * T + k], "C09_GET_CONTENT");
        let base = slab.data.as_ptr() as usize;
        assert!(slab.get(i).as_ptr() as usize == base + phys[i] * T, "C09_GET_ADDRESS");
        let m = slab.get_mut(i);
        assert!(m.len() == T && m.as_ptr() as usize == base + phys[i] * T, "C09_GET_MUT_ADDRESS");
        kani::cover!(i == COUNT - 1 && k == T - 1, "reachable");
        core::mem::forget(slab);
    }

    // (i)+C12: the paired borrow returns the two physical ranges, in bounds and disjoint
    #[kani::proof]
    #[kani::unwind(@UNWIND@)]
    fn c09_slab_pair_is_disjoint_and_in_bounds() {
        let data: [u8; COUNT * T] = kani::any();
        let (mut slab, phys) = any_slab(&data);
        let d: usize = kani::any();
        let s: usize = kani::any();
        kani::assume(d < COUNT && s < COUNT && d != s);
        let base = slab.data.as_ptr() as usize;
        let total = slab.data.len();
        let (dm, sr) = slab.get_pair_mut(d, s);
        let (da, sa) = (dm.as_ptr() as usize, sr.as_ptr() as usize);
        assert!(dm.len() == T && sr.len() == T, "C12_PAIR_LEN");
        assert!(da == base + phys[d] * T && sa == base + phys[s] * T, "C12_PAIR_ADDRESS");
        assert!(da + T <= base + total && sa + T <= base + total, "C12_PAIR_IN_BOUNDS");
        assert!(da + T <= sa || sa + T <= da, "C12_PAIR_DISJOINT");
        let k: usize = kani::any();
        kani::assume(k < T);
        assert!(sr[k] == data[phys[s] * T + k] && dm[k] == data[phys[d] * T + k], "C12_PAIR_CONTENT");
        kani::cover!(d == COUNT - 1 && s == 0, "reachable");
        core::mem::forget(slab);
    }

    #[kani::proof]
    #[kani::unwind(@UNWIND@)]
    #[kani::should_panic]
    fn c09_slab_pair_same_symbol_panics() {
        let data: [u8; COUNT * T] = kani::any();
        let (mut slab, _phys) = any_slab(&data);
        let d: usize = kani::any();
        kani::assume(d < COUNT);
        let _ = slab.get_pair_mut(d, d);
    }

    #[kani::proof]
    #[kani::unwind(@UNWIND@)]
    #[kani::should_panic]
    fn c09_slab_out_of_range_panics() {
        let data: [u8; COUNT * T] = kani::any();
        let (mut slab, _phys) = any_slab(&data);
        let d: usize = kani::any();
        let s: usize = kani::any();
        kani::assume(d < COUNT && s >= COUNT && s < COUNT + 3);
        if kani::any() {
            let _ = slab.get_pair_mut(d, s);
        } else if kani::any() {
            let _ = slab.get_pair_mut(s, d);
        } else {
            let _ = slab.get(s);
        }
    }

    // C12: with an ARBITRARY reorder map (not necessarily a permutation: set_reorder is public and plans can be hand-made)
    // the paired borrow must refuse physical indices that coincide or lie outside the slab - never build the raw slices
    #[kani::proof]
    #[kani::unwind(@UNWIND@)]
    #[kani::should_panic]
    fn c12_slab_pair_bad_map_panics() {
        let data: [u8; COUNT * T] = kani::any();
        let mut slab = SymbolSlab { data: data.to_vec(), count: COUNT, symbol_size: T, mapping: None };
        let map: [usize; COUNT] = kani::any();
        slab.set_reorder(map.to_vec());
        let d: usize = kani::any();
        let s: usize = kani::any();
        kani::assume(d < COUNT && s < COUNT && d != s);
        kani::assume(map[d] == map[s] || map[d] >= COUNT || map[s] >= COUNT);
        let (dm, sr) = slab.get_pair_mut(d, s);
        // reaching this point means no panic: touch the slices so that an out-of-bounds range is also a pointer-check failure
        let _ = dm[0] ^ sr[0];
    }

    // (ii) perform_op changes only the dest symbol and applies the field operation byte-wise
    #[kani::proof]
    #[kani::unwind(@UNWIND@)]
    fn c09_perform_op_frame_and_semantics() {
        let data: [u8; COUNT * T] = kani::any();
        let (mut slab, phys) = any_slab(&data);
        let d: usize = kani::any();
        let s: usize = kani::any();
        kani::assume(d < COUNT && s < COUNT && d != s);
        let c: u8 = @SCALAR@;
        // documented preconditions of the multiplying kernels (debug_assert): the scalar is neither 0 nor 1
        kani::assume(c >= 2);
        let kind: u8 = kani::any();
        kani::assume(kind < @KINDS@);
        let op = if kind == 0 {
            SymbolOps::AddAssign { dest: d, src: s }
        } else if kind == 1 {
            SymbolOps::MulAssign { dest: d, scalar: Octet::new(c) }
        } else {
            SymbolOps::FMA { dest: d, src: s, scalar: Octet::new(c) }
        };
        perform_op(&op, &mut slab);
        let j: usize = kani::any();
        kani::assume(j < COUNT * T);
        let sym = j / T;
        let col = j % T;
        let after = slab.data[j];
        if sym != phys[d] {
            assert!(after == data[j], "C09_OP_FRAME");
        } else {
            let dv = data[phys[d] * T + col];
            let sv = data[phys[s] * T + col];
            let want = if kind == 0 { dv ^ sv } else if kind == 1 { gfmul(c, dv) } else { dv ^ gfmul(c, sv) };
            assert!(after == want, "C09_OP_SEMANTICS");
        }
        kani::cover!(kind == @KINDS@ - 1 && sym == phys[d], "reachable: op on dest");
        kani::cover!(kind == 0 && sym != phys[d], "reachable: frame");
        core::mem::forget(slab);
        core::mem::forget(op);
    }

    // Reorder only installs the logical->physical map
    #[kani::proof]
    #[kani::unwind(@UNWIND@)]
    fn c09_reorder_op_is_a_relabelling() {
        let data: [u8; COUNT * T] = kani::any();
        let (mut slab, _phys) = any_slab(&data);
        let perm: [usize; COUNT] = kani::any();
        let mut i = 0;
        while i < COUNT {
            kani::assume(perm[i] < COUNT);
            i += 1;
        }
        let op = SymbolOps::Reorder { order: perm.to_vec() };
        perform_op(&op, &mut slab);
        let i: usize = kani::any();
        kani::assume(i < COUNT);
        let k: usize = kani::any();
        kani::assume(k < T);
        assert!(slab.get(i)[k] == data[perm[i] * T + k], "C09_REORDER_RELABELS");
        let j: usize = kani::any();
        kani::assume(j < COUNT * T);
        assert!(slab.data[j] == data[j], "C09_REORDER_KEEPS_DATA");
        kani::cover!(perm[0] == COUNT - 1, "reachable");
        core::mem::forget(slab);
        core::mem::forget(op);
    }
}
