// C11 / C12 — appended to src/octets.rs of the scratch overlay (engine E1).
// One harness per kernel x length (concrete length, exact heap allocations so that any byte touched
// outside the slices is a CBMC pointer-check failure = C12; contents and scalar symbolic; result
// compared with the polynomial definition of GF(256) = C11).
#[cfg(kani)]
mod verif_c11 {
    use super::*;
    extern crate alloc;
    use alloc::boxed::Box;
    use alloc::vec::Vec;

    fn gfmul(a: u8, b: u8) -> u8 {
        let mut acc: u16 = 0;
        let mut aa: u16 = a as u16;
        let mut i = 0;
        while i < 8 {
            if (b >> i) & 1 == 1 {
                acc ^= aa;
            }
            aa <<= 1;
            if aa & 0x100 != 0 {
                aa ^= 0x11D;
            }
            i += 1;
        }
        acc as u8
    }

    // ---- models of LLVM-only intrinsics (validated against this host's CPU by tools/validate_stubs) ----
    //@STUB_MODELS@

    fn check_add<const LEN: usize>(kernel: fn(&mut [u8], &[u8])) {
        let mut d: Box<[u8; LEN]> = Box::new(kani::any());
        let s: Box<[u8; LEN]> = Box::new(kani::any());
        let d0 = *d;
        kernel(&mut d[..], &s[..]);
        if LEN > 0 {
            let i: usize = kani::any();
            kani::assume(i < LEN);
            assert!(d[i] == d0[i] ^ s[i], "C11_ADD_ASSIGN");
        }
        kani::cover!(true, "reachable");
    }

    // scalar under test: bits = 8 -> all 256 values; otherwise the top (8 - bits) bits are fixed to `hi`
    // (bits = 0 -> the constant `hi`).  The look-up tables are indexed by the scalar; CBMC needs the split.
    fn scalar(hi: u8, bits: u8) -> u8 {
        let lo: u8 = kani::any();
        if bits >= 8 {
            lo
        } else {
            kani::assume(lo < (1u8 << bits));
            (hi << bits) | lo
        }
    }

    fn check_mul<const LEN: usize>(kernel: fn(&mut [u8], &Octet), hi: u8, bits: u8) {
        let mut d: Box<[u8; LEN]> = Box::new(kani::any());
        let d0 = *d;
        let c = scalar(hi, bits);
        kernel(&mut d[..], &Octet::new(c));
        if LEN > 0 {
            let i: usize = kani::any();
            kani::assume(i < LEN);
            assert!(d[i] == gfmul(c, d0[i]), "C11_MUL_ASSIGN");
        }
        kani::cover!(true, "reachable");
    }

    fn check_fma<const LEN: usize>(kernel: fn(&mut [u8], &[u8], &Octet), hi: u8, bits: u8) {
        let mut d: Box<[u8; LEN]> = Box::new(kani::any());
        let s: Box<[u8; LEN]> = Box::new(kani::any());
        let d0 = *d;
        let c = scalar(hi, bits);
        kernel(&mut d[..], &s[..], &Octet::new(c));
        if LEN > 0 {
            let i: usize = kani::any();
            kani::assume(i < LEN);
            assert!(d[i] == d0[i] ^ gfmul(c, s[i]), "C11_FMA");
        }
        kani::cover!(true, "reachable");
    }

    // operands that do NOT start on an 8-byte boundary: the slices begin OFFD resp. OFFS bytes into their heap objects
    // (the end of each object is still exact, so a read or write past the end is a pointer-check failure)
    fn check_add_misaligned<const LEN: usize, const TOTD: usize, const TOTS: usize>(kernel: fn(&mut [u8], &[u8])) {
        let mut d: Box<[u8; TOTD]> = Box::new(kani::any());
        let s: Box<[u8; TOTS]> = Box::new(kani::any());
        let d0 = *d;
        let (offd, offs) = (TOTD - LEN, TOTS - LEN);
        kernel(&mut d[offd..], &s[offs..]);
        let i: usize = kani::any();
        kani::assume(i < TOTD);
        if i < offd {
            assert!(d[i] == d0[i], "C11_ADD_ASSIGN_FRAME_BEFORE_SLICE");
        } else {
            assert!(d[i] == d0[i] ^ s[offs + (i - offd)], "C11_ADD_ASSIGN_MISALIGNED");
        }
        kani::cover!(i == TOTD - 1, "reachable");
    }

    fn check_bin<const LEN: usize, const WORDS: usize>(kernel: fn(&mut [u8], &BinaryOctetVec, &Octet), nonzero_scalar: bool) {
        let mut d: Box<[u8; LEN]> = Box::new(kani::any());
        let d0 = *d;
        let words: [u64; WORDS] = kani::any();
        let mut v: Vec<u64> = Vec::with_capacity(WORDS);
        let mut k = 0;
        while k < WORDS {
            v.push(words[k]);
            k += 1;
        }
        let bits = BinaryOctetVec::new(v, LEN);
        let c: u8 = kani::any();
        if nonzero_scalar {
            kani::assume(c != 0);
        }
        kernel(&mut d[..], &bits, &Octet::new(c));
        if LEN > 0 {
            let i: usize = kani::any();
            kani::assume(i < LEN);
            let pad = (64 - LEN % 64) % 64;
            let pos = pad + i;
            let bit = (words[pos / 64] >> (pos % 64)) & 1;
            assert!(d[i] == d0[i] ^ (if bit == 1 { c } else { 0 }), "C11_FMA_BINARY");
        }
        kani::cover!(true, "reachable");
        core::mem::forget(bits);
    }

    //@KERNEL_WRAPPERS@

    //@HARNESSES@
}
