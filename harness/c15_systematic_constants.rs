// C15 — appended to src/systematic_constants.rs of the scratch overlay (engine E1).
#[cfg(kani)]
mod verif_c15 {
    use super::*;
    use crate::base::intermediate_tuple;
    use crate::constraint_matrix::enc_indices;

    // (d) Enc[] index generation for ANY in-range tuple and ANY table row: every index < L, exactly
    // d + d1 indices, loops terminate within the unwinding bound (checked by unwinding assertions),
    // no panic.
    // all 477 rows in one query (row index symbolic)
    #[kani::proof]
    #[kani::unwind(32)]
    fn c15_enc_indices_any_row() {
        let idx: usize = kani::any();
        kani::assume(idx < 477);
        enc_indices_row(idx);
    }

    fn enc_indices_row(idx: usize) {
        let (kp, _j, s, h, w) = SYSTEMATIC_INDICES_AND_PARAMETERS[idx];
        let (kp2, p1) = P1_TABLE[idx];
        assert!(kp2 == kp, "C15_P1_TABLE_ALIGNED");
        let l = kp + s + h;
        let p = l - w;
        let d: u32 = kani::any();
        let a: u32 = kani::any();
        let b: u32 = kani::any();
        let d1: u32 = kani::any();
        let a1: u32 = kani::any();
        let b1: u32 = kani::any();
        // the ranges C15 states for Tuple[K', X]
        kani::assume(1 <= d && d <= 30 && d <= w - 2);
        kani::assume(1 <= a && a < w && b < w);
        kani::assume(d1 == 2 || d1 == 3);
        kani::assume(1 <= a1 && a1 < p1 && b1 < p1);
        let mut count: u32 = 0;
        let mut in_range = true;
        let mut lt_part = 0u32;
        enc_indices((d, a, b, d1, a1, b1), w, p, p1, |i| {
            count += 1;
            if i >= l as usize {
                in_range = false;
            }
            if i < w as usize {
                lt_part += 1;
            }
        });
        assert!(in_range, "C15_ENC_INDEX_LT_L");
        assert!(count == d + d1, "C15_ENC_INDEX_COUNT");
        assert!(lt_part == d, "C15_ENC_LT_PART_COUNT");
        kani::cover!(d1 == 3 && b1 == p1 - 1, "reachable: d1 = 3 starting at the last PI residue");
    }

    //@ENC_ROW_HARNESSES@

    // (c, thorough) ranges of the real tuple for symbolic (row, ISI)
    #[kani::proof]
    #[kani::unwind(32)]
    fn c15_tuple_ranges() {
        let idx: usize = kani::any();
        kani::assume(idx < 477);
        let (kp, j, _s, _h, w) = SYSTEMATIC_INDICES_AND_PARAMETERS[idx];
        let p1 = P1_TABLE[idx].1;
        let x: u32 = kani::any();
        kani::assume(x < (1u32 << 24) + kp);
        let (d, a, b, d1, a1, b1) = intermediate_tuple(x, w, j, p1);
        assert!(1 <= d && d <= 30 && d <= w - 2, "C15_D_RANGE");
        assert!(1 <= a && a < w, "C15_A_RANGE");
        assert!(b < w, "C15_B_RANGE");
        assert!(d1 == 2 || d1 == 3, "C15_D1_RANGE");
        assert!(1 <= a1 && a1 < p1, "C15_A1_RANGE");
        assert!(b1 < p1, "C15_B1_RANGE");
        kani::cover!(idx == 100 && x == 0xFFFFFF, "reachable");
    }
}
