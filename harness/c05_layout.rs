// C05 — sub-block layout, appended to src/@FILE@ of the scratch overlay (engine E1). Concrete shape
// (K symbols of T bytes, N sub-blocks, alignment Al), symbolic data.
#[cfg(kani)]
mod verif_c05_layout_@TAG@ {
    use super::*;

    const K: usize = @K@;
    const T: usize = @T@;
    const N: usize = @N@;
    const AL: usize = @AL@;

    // RFC 6330 4.4.1.2: (TL, TS, NL, NS) = Partition[T/Al, N]; sub-block j holds K sub-symbols of TL*Al (j < NL) or TS*Al bytes,
    // sub-blocks are stored one after the other; symbol m = concatenation of sub-symbol m of every sub-block.
    fn rfc_symbol_byte(data: &[u8; K * T], m: usize, pos: usize) -> u8 {
        let units = T / AL;
        let tl = (units + N - 1) / N;
        let ts = units / N;
        let nl = units - ts * N;
        let mut off_in_symbol = 0;
        let mut sub_block_start = 0;
        let mut j = 0;
        while j < N {
            let size = if j < nl { tl * AL } else { ts * AL };
            if pos < off_in_symbol + size {
                return data[sub_block_start + m * size + (pos - off_in_symbol)];
            }
            off_in_symbol += size;
            sub_block_start += K * size;
            j += 1;
        }
        0
    }

    #[cfg(@IS_ENCODER@)]
    #[kani::proof]
    #[kani::unwind(@UNWIND@)]
    fn c05_create_symbols_@TAG@() {
        let data: [u8; K * T] = kani::any();
        let config = ObjectTransmissionInformation::new((K * T) as u64, T as u16, 1, N as u16, AL as u8);
        let symbols = SourceBlockEncoder::create_symbols(&config, &data);
        assert!(symbols.len() == K, "C05_K_SYMBOLS");
        let m: usize = kani::any();
        let pos: usize = kani::any();
        kani::assume(m < K && pos < T);
        assert!(symbols[m].as_bytes().len() == T, "C05_SYMBOL_IS_T_BYTES");
        assert!(symbols[m].as_bytes()[pos] == rfc_symbol_byte(&data, m, pos), "C05_SYMBOL_IS_CONCAT_OF_SUBSYMBOLS");
        kani::cover!(m == K - 1 && pos == T - 1, "reachable");
        core::mem::forget(symbols);
    }

    #[cfg(not(@IS_ENCODER@))]
    #[kani::proof]
    #[kani::unwind(@UNWIND@)]
    fn c05_unpack_sub_blocks_@TAG@() {
        let data: [u8; K * T] = kani::any();
        let config = ObjectTransmissionInformation::new((K * T) as u64, T as u16, 1, N as u16, AL as u8);
        let dec = SourceBlockDecoder::new(0, &config, (K * T) as u64);
        assert!(dec.source_block_symbols as usize == K, "C05_DECODER_K");
        let mut result = [0u8; K * T];
        let mut m = 0;
        while m < K {
            // the symbol as the RFC defines it
            let mut sym = [0u8; T];
            let mut p = 0;
            while p < T {
                sym[p] = rfc_symbol_byte(&data, m, p);
                p += 1;
            }
            dec.unpack_sub_blocks(&mut result, &sym, m);
            m += 1;
        }
        let i: usize = kani::any();
        kani::assume(i < K * T);
        assert!(result[i] == data[i], "C05_DECODER_INVERTS_LAYOUT");
        kani::cover!(i == K * T - 1, "reachable");
        core::mem::forget(dec);
    }
}
