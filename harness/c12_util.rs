// C12 — appended to src/util.rs of the scratch overlay (engine E1).
#[cfg(kani)]
mod verif_c12 {
    use super::*;

    const N: usize = 6;

    #[kani::proof]
    #[kani::unwind(8)]
    fn c12_get_both_ranges() {
        let mut v: [u8; N] = kani::any();
        let v0 = v;
        let i: usize = kani::any();
        let j: usize = kani::any();
        let len: usize = kani::any();
        // documented preconditions (debug_asserts): distinct, in range, non-overlapping
        kani::assume(i != j && len <= N && i <= N - len && j <= N - len);
        kani::assume(if i < j { i + len <= j } else { j + len <= i });
        let base = v.as_ptr() as usize;
        let (a, b) = get_both_ranges(&mut v[..], i, j, len);
        assert!(a.len() == len && b.len() == len, "C12_RANGES_LEN");
        assert!(a.as_ptr() as usize == base + i && b.as_ptr() as usize == base + j, "C12_RANGES_ADDRESS");
        let k: usize = kani::any();
        kani::assume(k < len);
        assert!(a[k] == v0[i + k] && b[k] == v0[j + k], "C12_RANGES_CONTENT");
        kani::cover!(len == 3 && i == 3 && j == 0, "reachable");
    }

    #[kani::proof]
    #[kani::unwind(8)]
    fn c12_get_both_indices() {
        let mut v: [u16; N] = kani::any();
        let v0 = v;
        let i: usize = kani::any();
        let j: usize = kani::any();
        kani::assume(i != j && i < N && j < N);
        let base = v.as_ptr() as usize;
        let (a, b) = get_both_indices(&mut v[..], i, j);
        assert!(a as *mut u16 as usize == base + 2 * i && b as *mut u16 as usize == base + 2 * j, "C12_INDICES_ADDRESS");
        assert!(*a == v0[i] && *b == v0[j], "C12_INDICES_CONTENT");
        kani::cover!(i == N - 1 && j == 0, "reachable");
    }
}
