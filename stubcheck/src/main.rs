// Validates the intrinsic models used as Kani stubs against the real instructions of this CPU.
// pshufb (128/256/512): every table byte position x every index byte value per lane (the model is
// lane-wise and position-wise, so 16 x 256 index/table combinations per lane cover it) plus pseudo-random
// vectors; bextr: all control words < 2^13 on a set of operands; maskz_mov: random masks/vectors.
include!("../../harness/stub_models.rs");

use core::arch::x86_64::*;

fn lcg(s: &mut u64) -> u64 {
    *s = s.wrapping_mul(6364136223846793005).wrapping_add(1442695040888963407);
    *s >> 11
}

#[target_feature(enable = "ssse3")]
unsafe fn real128(a: [u8; 16], b: [u8; 16]) -> [u8; 16] {
    unsafe { core::mem::transmute(_mm_shuffle_epi8(core::mem::transmute(a), core::mem::transmute(b))) }
}
#[target_feature(enable = "avx2")]
unsafe fn real256(a: [u8; 32], b: [u8; 32]) -> [u8; 32] {
    unsafe { core::mem::transmute(_mm256_shuffle_epi8(core::mem::transmute(a), core::mem::transmute(b))) }
}
#[target_feature(enable = "avx512f,avx512bw")]
unsafe fn real512(a: [u8; 64], b: [u8; 64]) -> [u8; 64] {
    unsafe { core::mem::transmute(_mm512_shuffle_epi8(core::mem::transmute(a), core::mem::transmute(b))) }
}
#[target_feature(enable = "avx512f,avx512bw")]
unsafe fn real_maskz(k: u64, a: [u8; 64]) -> [u8; 64] {
    unsafe { core::mem::transmute(_mm512_maskz_mov_epi8(k, core::mem::transmute(a))) }
}
#[target_feature(enable = "bmi1")]
unsafe fn real_bextr(a: u32, c: u32) -> u32 {
    unsafe { _bextr2_u32(a, c) }
}

fn main() {
    let mut checked = 0u64;
    let mut skipped = vec![];
    let mut seed = 0x1234_5678_9abc_def0u64;
    if is_x86_feature_detected!("ssse3") {
        for pos in 0..16 {
            for idx in 0..=255u8 {
                let mut a = [0u8; 16];
                for (i, x) in a.iter_mut().enumerate() {
                    *x = (i as u8).wrapping_mul(17).wrapping_add(3);
                }
                let mut b = [0x80u8; 16];
                b[pos] = idx;
                let m: [u8; 16] = unsafe { core::mem::transmute(stubs::mm_shuffle_epi8(core::mem::transmute(a), core::mem::transmute(b))) };
                assert_eq!(m, unsafe { real128(a, b) }, "pshufb128 pos {} idx {}", pos, idx);
                checked += 1;
            }
        }
        for _ in 0..20000 {
            let a: [u8; 16] = core::array::from_fn(|_| lcg(&mut seed) as u8);
            let b: [u8; 16] = core::array::from_fn(|_| lcg(&mut seed) as u8);
            let m: [u8; 16] = unsafe { core::mem::transmute(stubs::mm_shuffle_epi8(core::mem::transmute(a), core::mem::transmute(b))) };
            assert_eq!(m, unsafe { real128(a, b) });
            checked += 1;
        }
    } else {
        skipped.push("ssse3");
    }
    if is_x86_feature_detected!("avx2") {
        for pos in 0..32 {
            for idx in 0..=255u8 {
                let a: [u8; 32] = core::array::from_fn(|i| (i as u8).wrapping_mul(29).wrapping_add(1));
                let mut b = [0x80u8; 32];
                b[pos] = idx;
                let m: [u8; 32] = unsafe { core::mem::transmute(stubs::mm256_shuffle_epi8(core::mem::transmute(a), core::mem::transmute(b))) };
                assert_eq!(m, unsafe { real256(a, b) }, "pshufb256 pos {} idx {}", pos, idx);
                checked += 1;
            }
        }
        for _ in 0..20000 {
            let a: [u8; 32] = core::array::from_fn(|_| lcg(&mut seed) as u8);
            let b: [u8; 32] = core::array::from_fn(|_| lcg(&mut seed) as u8);
            let m: [u8; 32] = unsafe { core::mem::transmute(stubs::mm256_shuffle_epi8(core::mem::transmute(a), core::mem::transmute(b))) };
            assert_eq!(m, unsafe { real256(a, b) });
            checked += 1;
        }
    } else {
        skipped.push("avx2");
    }
    if is_x86_feature_detected!("avx512f") && is_x86_feature_detected!("avx512bw") {
        for pos in 0..64 {
            for idx in 0..=255u8 {
                let a: [u8; 64] = core::array::from_fn(|i| (i as u8).wrapping_mul(37).wrapping_add(5));
                let mut b = [0x80u8; 64];
                b[pos] = idx;
                let m: [u8; 64] = unsafe { core::mem::transmute(stubs::mm512_shuffle_epi8(core::mem::transmute(a), core::mem::transmute(b))) };
                assert_eq!(m, unsafe { real512(a, b) }, "pshufb512 pos {} idx {}", pos, idx);
                checked += 1;
            }
        }
        for _ in 0..20000 {
            let a: [u8; 64] = core::array::from_fn(|_| lcg(&mut seed) as u8);
            let b: [u8; 64] = core::array::from_fn(|_| lcg(&mut seed) as u8);
            let m: [u8; 64] = unsafe { core::mem::transmute(stubs::mm512_shuffle_epi8(core::mem::transmute(a), core::mem::transmute(b))) };
            assert_eq!(m, unsafe { real512(a, b) });
            let k = lcg(&mut seed) << 11 | lcg(&mut seed);
            let mz: [u8; 64] = unsafe { core::mem::transmute(stubs::mm512_maskz_mov_epi8(k, core::mem::transmute(a))) };
            assert_eq!(mz, unsafe { real_maskz(k, a) });
            checked += 2;
        }
        for bit in 0..64 {
            let a = [0xA5u8; 64];
            let mz: [u8; 64] = unsafe { core::mem::transmute(stubs::mm512_maskz_mov_epi8(1u64 << bit, core::mem::transmute(a))) };
            assert_eq!(mz, unsafe { real_maskz(1u64 << bit, a) });
            checked += 1;
        }
    } else {
        skipped.push("avx512f+bw");
    }
    if is_x86_feature_detected!("bmi1") {
        let ops = [0u32, 1, 0xFFFF_FFFF, 0x8000_0000, 0x1234_5678, 0xDEAD_BEEF, 0x0F0F_0F0F, 0xAAAA_5555];
        for c in 0..(1u32 << 13) {
            for a in ops {
                assert_eq!(stubs::bextr2_u32(a, c), unsafe { real_bextr(a, c) }, "bextr a={:#x} c={:#x}", a, c);
                checked += 1;
            }
        }
        for _ in 0..100000 {
            let a = lcg(&mut seed) as u32;
            let c = (lcg(&mut seed) as u32) & 0xFFFF;
            assert_eq!(stubs::bextr2_u32(a, c), unsafe { real_bextr(a, c) }, "bextr a={:#x} c={:#x}", a, c);
            checked += 1;
        }
    } else {
        skipped.push("bmi1");
    }
    println!("stub models agree with this CPU on {} comparisons; instruction sets not available here (models unvalidated): {:?}", checked, skipped);
}
