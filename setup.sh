#!/bin/sh
# Offline setup: everything is rebuilt per run from /repo's working tree; setup only sanity-checks tools.
set -e
cd "$(dirname "$0")"
export CARGO_NET_OFFLINE=true
command -v cargo >/dev/null
cargo kani --version
python3-vt -c "import z3, cvc5, jsonschema; print('z3', z3.get_version_string(), 'cvc5', cvc5.__version__)"
mkdir -p evidence replays
echo setup ok
