#!/bin/sh
# Offline setup: checks rebuild everything per run from /repo's working tree; setup sanity-checks the
# tools and validates the hand-written models of LLVM-only intrinsics (Kani stubs) against this CPU.
set -e
cd "$(dirname "$0")"
export CARGO_NET_OFFLINE=true
command -v cargo >/dev/null
cargo kani --version
python3-vt -c "import z3, cvc5, jsonschema; print('z3', z3.get_version_string(), 'cvc5', cvc5.__version__)"
z3-new --version
mkdir -p evidence replays
T="${VERIF_SCRATCH_BASE:-/var/tmp}/rqverif.setup.$$"
trap 'rm -rf "$T"' EXIT
cargo run --offline --release --manifest-path stubcheck/Cargo.toml --target-dir "$T" 2>&1 | tail -1
python3-vt tools/validate_e2.py
echo setup ok
