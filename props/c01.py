"""C01 — decoding never returns anything but the original object.  Engine E3 (decoder form) + units."""
import random
import time

from vlib import cert, decscen, rfc
from vlib.e3run import certify_many
from vlib.native import Native, Replay


def run_block_scenarios(ctx, native, scs, prefix, check_none=False, profiles=(False, True)):
    """Runs scenarios through the real decoder; returns certificate jobs. Reports concrete violations."""
    rep = ctx.report
    jobs, meta = [], {}
    n_runs = n_none_checked = 0
    t0 = time.time()
    for idx, sc in enumerate(scs):
        K = sc["K"]
        p = rfc.Params(K)
        # release builds take solver paths that debug-assertion builds do not (cfg(not(debug_assertions))): alternate, and run both every 4th
        which = profiles if (idx % 4 == 0 or len(profiles) == 1) else (profiles[idx % 2],)
        for release in which:
            prof = "release" if release else "debug"
            tag = "%s/K=%d/thr=%d/%s/#%d" % (prefix, K, sc["thr"], prof, idx)
            esis = decscen.esis_arg(sc)
            rt = native.run(["decode-seq", K, decscen.TAG_T, sc["thr"], "tag", esis], release=release)
            rr = native.run(["decode-seq", K, decscen.TAG_T, sc["thr"], "real", esis], release=release)
            n_runs += 1
            obj = {"kind": "decode-seq", "K": K, "T": decscen.TAG_T, "thr": sc["thr"], "esis": sc["esis"], "esis_arg": esis, "profile": prof, "why": sc["why"]}
            if not rt.startswith("DATA") or not rr.startswith("DATA"):
                rep.violated(tag, "decode %s" % sc["why"], "the real decoder failed on packets its encoder produced: %s" % (rr if not rr.startswith("DATA") else rt)[:200], obj, 0.0, "native")
                continue
            tg, rl = decscen.parse_decode_seq(rt), decscen.parse_decode_seq(rr)
            data = rl["data"]
            seen = set()
            answered = False
            for si, (st, sr) in enumerate(zip(tg["steps"], rl["steps"])):
                seen.update(sr["esis"])
                res = sr["result"]
                all_src = all(e in seen for e in range(K))
                if res is not None:
                    answered = True
                    if res != data:
                        rep.violated(tag, "decode wrong K=%d" % K, "decoder returned %d bytes that differ from the original %d bytes after %d packets (%s)" % (len(res), len(data), si + 1, sc["why"]), obj, 0.0, "native")
                        break
                    if len(seen) < K:
                        rep.violated(tag, "decode early K=%d" % K, "decoder answered with only %d distinct symbols of a K=%d block" % (len(seen), K), obj, 0.0, "native")
                        break
                    ok = [r for r in sr["records"] if r["solved"]]
                    if ok:        # answered by the solver: certify the program that produced the answer
                        rec_r = ok[-1]
                        rec_t = [r for r in st["records"] if r["solved"]]
                        if not rec_t or rec_t[-1]["program"].key() != rec_r["program"].key():
                            rep.inconclusive(tag, "the emitted program differs between the tag run and the real run: the solver's control flow is data dependent (E3 assumption broken)")
                            break
                        rows, prob = decscen.layout_from_tags(rec_t[-1], K)
                        if prob:
                            rep.violated(tag, "slab layout K=%d" % K, "slab handed to the solver is malformed: %s" % prob, obj, 0.0, "native")
                            break
                        jobs.append((tag, K, rec_r["program"], rows, bool(rec_r["hdpc"])))
                        meta[tag] = obj
                    break
                else:
                    if all_src:
                        rep.violated(tag, "decode no answer K=%d" % K, "all %d source symbols were delivered but the decoder still answers 'not yet'" % K, obj, 0.0, "native")
                        break
                    if check_none and len(seen) >= K:
                        # C02: 'not yet' with >= K distinct symbols must be a genuinely rank-deficient set
                        isis = [e if e < K else e + p.Kp - K for e in sorted(seen)] + list(range(K, p.Kp))
                        A = cert.gf_matrix(p, isis, True)
                        kv = cert.kernel_vector(A, p.L)
                        n_none_checked += 1
                        if kv is None:
                            rep.violated(tag, "gave up K=%d" % K, "decoder answers 'not yet' after %d packets although the received set has full rank %d over GF(256) (%s)" % (si + 1, p.L, sc["why"]), obj, 0.0, "native+rank")
                            break
                        if not cert.check_kernel(A, kv):
                            rep.inconclusive(tag, "kernel witness failed its own check")
                            break
            if not answered and len(set(sc["esis"])) >= K and not check_none:
                pass    # legitimately undecodable sets are C02's business
    rep.coverage["decode_runs"] = rep.coverage.get("decode_runs", 0) + n_runs
    rep.coverage["none_verdicts_certified_by_kernel_vector"] = rep.coverage.get("none_verdicts_certified_by_kernel_vector", 0) + n_none_checked
    rep.held("%s/native/%d-scenario-runs-answer-only-the-original" % (prefix, n_runs), "", time.time() - t0, "native/concrete", runs=n_runs)
    return jobs, meta


def report_decoder_certificates(ctx, jobs, meta, results, prefix, native):
    rep = ctx.report
    done = set()
    for tag, K, prog, rows, hd in jobs:
        r = results[tag]
        key = (K, r["program_key"], repr(rows))
        if key in done:
            continue
        done.add(key)
        name = "%s/certificate/K=%d/program-%s/%s" % (prefix, K, r["program_key"], "hdpc" if hd else "no-hdpc")
        extra = dict(ops=r.get("ops"), ff_variables=r.get("vars"), build_s=round(r.get("build_s", 0), 2), scenario=meta[tag]["why"], rows=len(rows))
        if r["status"] == "unsat":
            rep.held(name, "program(A_rfc[rows]*C) = C for every C", r.get("solve_s", 0.0), "cvc5-ff", **extra)
        elif r["status"] == "malformed":
            rep.violated(name, "decoder program K=%d" % K, "program/slab malformed: %s" % r.get("detail"), meta[tag], 0.0, "cvc5-ff", **extra)
        else:
            # not proved: the concrete end-to-end run of this very scenario already passed, so look for other data
            rep.inconclusive(name, "decoder certificate not proved (%s) for scenario %s" % (r["status"], meta[tag]["why"]), r.get("solve_s", 0.0), "cvc5-ff", **extra)


def object_scenarios(ctx, replay):
    """Object-level round trips through Encoder/Decoder (Z, N, Al, padding): concrete observation."""
    rep = ctx.report
    rnd = random.Random(77 + ctx.seed)
    cases = [(1, 1, 1, 1, 1), (7, 4, 1, 1, 1), (100, 8, 2, 1, 1), (101, 8, 3, 2, 2), (1000, 16, 3, 2, 4), (999, 24, 2, 3, 8), (64, 8, 1, 1, 8),
             (333, 6, 5, 3, 1), (2500, 40, 4, 5, 8)]
    if ctx.tier == "thorough":
        cases += [(rnd.randrange(1, 6000), t, rnd.randrange(1, 6), rnd.randrange(1, 4), 1) for t in (3, 5, 12, 48) for _ in range(6)]
    t0 = time.time()
    n = 0
    for F, T, Z, N, Al in cases:
        if N > T // Al or Z > -(-F // T):
            continue
        for drop, extra in ((0, 0), (3, 4), (2, 6), (5, 3)):
            res = replay.both(["roundtrip", F, T, Z, N, Al, drop, extra, ctx.seed])
            n += 1
            for prof, v in res.items():
                if v.startswith("decoded equal=true len=%d" % F) or (v == "none" and drop > 0):
                    continue        # 'not yet' is only acceptable when something was dropped: with every source packet delivered the object must come back
                rep.violated("c01/object/F=%d,T=%d,Z=%d,N=%d,Al=%d,drop=%d" % (F, T, Z, N, Al, drop), "object roundtrip",
                             "object round trip (%s build) gave: %s" % (prof, v[:200]),
                             {"kind": "roundtrip", "args": [F, T, Z, N, Al, drop, extra, ctx.seed]}, 0.0, "native")
    rep.held("c01/object/%d-round-trips(Z,N,Al,padding)" % n, "every answer equals the object with exactly F bytes", time.time() - t0, "native/concrete", runs=n)


def run(ctx):
    rep = ctx.report
    rep.functions = ["decoder::SourceBlockDecoder::{new,decode,try_pi_decode,try_pi_decode_no_hdpc,rebuild_source_symbol_into,unpack_sub_blocks}",
                     "decoder::Decoder::{new,decode}", "constraint_matrix::{generate_constraint_matrix,generate_constraint_matrix_no_hdpc}",
                     "pi_solver::IntermediateSymbolDecoder::{new,new_no_hdpc,execute}", "encoder (packets of the scenarios)"]
    rep.bounds = {"solver programs": "every program behind an answer of the scenario family is validated for ALL intermediate-symbol vectors (8L F_2 variables)",
                  "scenarios": "generated family, K in {1,2,9,10,11,26} (thorough adds 3,12,13,27,55,101): single/pair erasures, repair-only, extreme and seeded 24-bit ESIs, overhead 0-2 and large (no-HDPC path), duplicates, both back-ends, both profiles; seed = VERIF_SEED",
                  "object level": "concrete round trips with Z in 1..5, N in 1..5, Al in {1,2,4,8}, F not a multiple of T"}
    rep.assumptions = ["packet sets and orders are enumerated/sampled, not symbolic; only the data quantifier of the solver part is discharged by a solver",
                       "slab layout (which row holds which received symbol) is observed from a run on tagged payloads, padding rows are assumed to be the zero rows between source and repair rows (a wrong assumption makes the certificate fail, not pass)",
                       "post-solve data movement (rebuild, un-interleave, truncate) is checked on concrete bytes; Enc index selection by the enc_indices harness of C15 and the enc_into harness of C04",
                       "T > 1 byte columns rest on C09/C11"]
    rep.outside = ["arbitrary packet subsets/orders beyond the generated family", "K above the listed sizes", "symbolic execution of Decoder::decode itself (no CBMC verdict, DESIGN §1)"]
    native = Native(ctx.scratch.path)
    replay = Replay(ctx.scratch.path)
    scs = decscen.scenarios(ctx.tier, ctx.seed)
    jobs, meta = run_block_scenarios(ctx, native, scs, "c01")
    results, nprog = certify_many(jobs, "dec", ctx.jobs, tlimit=900)
    report_decoder_certificates(ctx, jobs, meta, results, "c01", native)
    rep.coverage["programs"] = nprog
    object_scenarios(ctx, replay)


def replay(path):
    import json
    from vlib.common import Scratch
    obj = json.load(open(path))
    sc = Scratch("replay")
    if obj.get("kind") == "decode-seq":
        out = Native(sc.path).run(["decode-seq", obj["K"], obj["T"], obj["thr"], "real", obj.get("esis_arg") or ",".join(map(str, obj["esis"]))], release=obj.get("profile") == "release")
        print("\n".join(l[:200] for l in out.splitlines() if l.startswith(("DATA", "STEP"))))
    elif obj.get("kind") == "roundtrip":
        print(Replay(sc.path).both(["roundtrip"] + obj["args"]))
    else:
        print(json.dumps(obj, indent=1)[:2000])
    return 0
