"""C02 — a block decodes exactly when the received symbols determine it.  Engine E3, both directions:
'answered' => the emitted program is a left inverse of A_rfc[received rows] for every C (cvc5-FF unsat,
hence full column rank); 'not yet' with >= K distinct symbols => a kernel vector of A_rfc[received rows]
exists (found by elimination, CHECKED by direct evaluation); fewer than K symbols => 'not yet'."""
import random
import time

from vlib import cert, decscen, rfc
from vlib.e3run import certify_many
from vlib.native import Native
from props import c01


def rank_scenarios(tier, seed):
    """Sets at overhead 0/1 where rank deficiency actually occurs, incl. deliberately found deficient sets and
    batches for which the binary-only (no-HDPC) system is deficient while the full system is not."""
    rnd = random.Random(4242 + seed)
    thorough = tier == "thorough"
    out = []

    def add(K, thr, batches, why):
        batches = [list(b) for b in batches if b]
        out.append({"K": K, "thr": thr, "batches": batches, "esis": [e for b in batches for e in b], "why": why})
    for K in ([10, 26] + ([2, 9, 11, 27, 55] if thorough else [])):
        p = rfc.Params(K)
        n_rand, n_def, n_fb = (60, 5, 6) if not thorough else (150, 50, 20)
        deficient = fallback = 0
        tries = 0
        while (deficient < n_def or n_rand > 0) and tries < 20000:
            tries += 1
            nsrc = rnd.randrange(0, K)
            esis = rnd.sample(range(K), nsrc) + rnd.sample(range(K, K + 4 * K) if tries % 3 else range(K, 1 << 24), K - nsrc)
            isis = [e if e < K else e + p.Kp - K for e in esis] + list(range(K, p.Kp))
            kv = cert.kernel_vector(cert.gf_matrix(p, isis, True), p.L)
            extra = rnd.sample(range(K + 5 * K, K + 6 * K + 8), 2)
            thr = decscen.DENSE if tries % 2 else decscen.SPARSE
            if kv is not None and deficient < n_def:
                deficient += 1
                add(K, thr, [[e] for e in esis + extra], "rank-deficient set of K symbols (found by elimination), then two more")
            elif n_rand > 0:
                n_rand -= 1
                add(K, thr, [[e] for e in esis + extra[:1]], "random K-subset (%d source), overhead 0 then 1" % nsrc)
        # binary-only system deficient, full system fine: the fast path must fall back, not give up
        tries = 0
        while fallback < n_fb and tries < 400:
            tries += 1
            cnt = K + p.H + rnd.randrange(0, 2)
            nsrc = rnd.randrange(0, K)
            esis = rnd.sample(range(K), nsrc) + rnd.sample(range(K, K + 6 * K + 64), cnt - nsrc)
            isis = [e if e < K else e + p.Kp - K for e in esis] + list(range(K, p.Kp))
            if cert.kernel_vector(cert.gf_matrix(p, isis, False), p.L) is not None and cert.kernel_vector(cert.gf_matrix(p, isis, True), p.L) is None:
                fallback += 1
                add(K, decscen.DENSE if fallback % 2 else decscen.SPARSE, [esis], "one batch: binary-only system rank deficient, full system has full rank (fast path must fall back)")
        # a linearly redundant family first: more than L distinct repair ESIs that together still do NOT determine the block
        # (grown greedily with the rank oracle: an ESI is added only if the set stays rank deficient), then ordinary repair
        # symbols one at a time - the set becomes decodable only after more than L repair packets have arrived
        if p.Kp <= 26:
            fam, e = [], K + 200
            pad = list(range(K, p.Kp))
            while len(fam) < p.L + 3 and e < K + 5000:
                isis = [x + p.Kp - K for x in fam + [e]] + pad
                if cert.kernel_vector(cert.gf_matrix(p, isis, True), p.L) is not None:
                    fam.append(e)
                e += 1
            if len(fam) >= p.L + 3:
                tail = list(range(K + 70000, K + 70000 + K + 6))
                add(K, decscen.DENSE, [[x] for x in fam + tail], "more than L distinct repair ESIs that leave the block undetermined, then ordinary repair symbols")
                add(K, decscen.SPARSE, [fam[:p.L // 2], fam[p.L // 2:]] + [[x] for x in tail], "the same redundant family in two batches, then ordinary repair symbols")
        # fewer than K symbols
        add(K, decscen.DENSE, [[e] for e in range(K - 1)], "K-1 source symbols only")
        add(K, decscen.SPARSE, [[K + i for i in range(K - 1)]], "K-1 repair symbols in one batch")
    return out


def run(ctx):
    rep = ctx.report
    rep.functions = ["decoder::SourceBlockDecoder::decode (cases 1, 2, 3a, 3b)", "pi_solver::IntermediateSymbolDecoder::{new,new_no_hdpc,execute}",
                     "constraint_matrix::{generate_constraint_matrix,generate_constraint_matrix_no_hdpc}", "pi_solver::{first..fifth}_phase"]
    rep.bounds = {"scenarios": "K in {10,26} (thorough adds 2,9,11,27,55): random K-subsets of mixed source/repair ESIs (repair ESIs up to 2^24), deliberately rank-deficient sets, batches that defeat the binary-only fast path, fewer-than-K sets; plus the C01 family at overhead 0..2; verdict after every delivery",
                  "per verdict": "answered: all 8L bits of C symbolic (cvc5-FF); not yet: GF(256) kernel vector checked by evaluation"}
    rep.assumptions = ["received sets are a generated family (seed = VERIF_SEED): only each set's rank question is settled exactly",
                       "kernel vectors come from the checker's own Gaussian elimination and are trusted only after A*C = 0 has been re-evaluated",
                       "layout/padding assumptions as in C01"]
    rep.outside = ["completeness of the solver for every erasure pattern", "K above the listed sizes"]
    native = Native(ctx.scratch.path)
    t0 = time.time()
    scs = rank_scenarios(ctx.tier, ctx.seed)
    rep.coverage["scenario_generation_s"] = round(time.time() - t0, 1)
    scs += [s for s in decscen.scenarios(ctx.tier, ctx.seed, ks=[9, 10]) if "overhead 0" in s["why"] or "no-HDPC" in s["why"]]
    jobs, meta = c01.run_block_scenarios(ctx, native, scs, "c02", check_none=True)
    results, nprog = certify_many(jobs, "dec", ctx.jobs, tlimit=900)
    c01.report_decoder_certificates(ctx, jobs, meta, results, "c02", native)
    rep.coverage["programs"] = nprog
    rep.coverage["scenarios"] = len(scs)
    kinds = {}
    for s in scs:
        k = s["why"].split("(")[0].split(",")[0][:40]
        kinds[k] = kinds.get(k, 0) + 1
    rep.coverage["scenario_kinds"] = kinds


def replay(path):
    return c01.replay(path)
