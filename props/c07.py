"""C07 — results depend only on the inputs, not on build, CPU, back-end or caching.
Reduction (DESIGN §4 C07): every flavour's solver output is validated against the SAME specification,
whose solution is unique, so flavours agree inside the bound (E3); every arithmetic kernel is proved
equal to the same element-wise field operation (E1, shared with C11); the flavours that cannot be put
under a solver (no_std build, process-wide plan cache, release optimiser) are compared concretely."""
import threading
import time

from vlib import cert, decscen, rfc
from vlib.e3run import certify_many, parse_encsolve
from vlib.native import Native, Replay
from props import c01, c06, c11

THRESHOLDS = (0, 250, 60000)


def run(ctx):
    rep = ctx.report
    thorough = ctx.tier == "thorough"
    rep.functions = ["encoder::gen_intermediate_symbols (threshold 0 / 250 / 60000)", "encoder::SourceBlockEncodingPlan::generate", "encoder::SourceBlockEncoder::{new,with_encoding_plan}",
                     "encoder::get_or_generate_source_block_encoding_plan (cache hit on the second construction, concrete)", "decoder::SourceBlockDecoder::decode (three thresholds)",
                     "pi_solver::IntermediateSymbolDecoder::execute (dense and sparse matrices, debug-assertion X matrix on/off)"] + \
                    ["octets::" + k for k in c11.KERNELS if not k.startswith("pub_")]
    kps = c06.rows_upto(55 if not thorough else 101) + ([257] if thorough else [])
    rep.bounds = {"encoder programs": "K' in %s x thresholds %s x {direct solve, plan} x {debug-assertions, release}: every distinct program certified for all data" % (kps, THRESHOLDS),
                  "decoder programs": "scenario sample at K=10,26 x thresholds %s x both profiles: same verdict at the same packet, every program certified" % (THRESHOLDS,),
                  "kernels": "each kernel at one length (a full vector + tail byte), contents symbolic, fixed scalar for the table kernels (C11 holds the full claim)",
                  "concrete flavours": "std vs no_std build, new vs cached vs with_encoding_plan vs Encoder::new, debug vs release: K in {1,10,11,26,50,101,110,160,230,257,300}, T in {1,2,3,8}"}
    rep.assumptions = ["uniqueness of the specification's solution (a consequence of each certificate) turns 'each flavour meets the spec' into 'flavours agree'",
                       "the optimiser is not modelled: Kani/MIR see unoptimised semantics; release vs debug is compared on concrete runs and through the programs they emit",
                       "the process-wide plan cache is exercised only single-threaded (C17 is not applicable)"]
    rep.outside = ["LLVM miscompilation", "no_std solver under a solver (only its concrete output is compared)", "NEON", "concurrent cache use (C17)"]
    native = Native(ctx.scratch.path)
    replay = Replay(ctx.scratch.path)
    replay_ns = Replay(ctx.scratch.path, no_std=True)
    # ---- kernels (reduced C11), in a thread
    def kernels():
        c11.run_kernels(ctx, "c07", "quick", kernels=[k for k in c11.KERNELS if not k.startswith("pub_")] + ["pub_fused_addassign_mul_scalar_binary"],
                        const_scalars=(0x53,), slices=(), timeout_s=600 if not thorough else 2400, mem_gb=14 if not thorough else 24)
    saved = c11.lengths_of

    def one_length(kernel, tier):
        v = c11.width(kernel)
        kind = c11.KERNELS[kernel][0]
        if kind in ("add", "bin"):
            return [65] if kind == "add" else [131]
        return [v + 1] if v else [3]
    c11.lengths_of = one_length
    kt = threading.Thread(target=kernels)
    kt.start()
    # ---- encoder programs across thresholds / paths / profiles
    t0 = time.time()
    jobs, Cs = [], {}
    for kp in kps:
        p = rfc.Params(kp)
        for release in (False, True):
            prof = "release" if release else "debug-assertions"
            runs = [("direct/thr=%d" % thr, ["encsolve", kp, thr, 2]) for thr in THRESHOLDS] + [("plan", ["plan", kp, 2])]
            for flavour, args in runs:
                tag = "K'=%d/%s/%s" % (kp, flavour, prof)
                out = native.run(args, release=release)
                if not (out.startswith("solved") or out.startswith("plan")):
                    rep.violated("c07/native/%s" % tag, "native %s" % tag, "flavour failed: %s" % out[:150], {"kind": "encoder-native", "K": kp, "flavour": flavour, "profile": prof}, 0.0, "native")
                    continue
                r = parse_encsolve(out)
                jobs.append((tag, kp, r["program"]))
                Cs.setdefault(kp, {})[tag] = r["C"]
    for kp, d in Cs.items():
        vals = {tuple(v) for v in d.values()}
        if len(vals) != 1:
            tags = sorted(d)
            ref = d[tags[0]]
            diff = [t for t in tags if d[t] != ref]
            rep.violated("c07/native/encoder-flavours-agree/K'=%d" % kp, "flavours K'=%d" % kp, "intermediate symbols differ between %s and %s" % (tags[0], diff[:3]),
                         {"kind": "encoder-native", "K": kp, "differing": diff}, 0.0, "native")
    rep.held("c07/native/encoder-flavours-agree-on-tagged-data", "%d flavour runs over %d block sizes" % (len(jobs), len(kps)), time.time() - t0, "native/concrete", runs=len(jobs))
    results, nprog = certify_many(jobs, "enc", max(2, ctx.jobs - 6), tlimit=3000 if thorough else 600)
    c06.report_certificates(ctx, jobs, results, nprog, "c07", native)
    # ---- decoder across thresholds / profiles
    scs = [s for s in decscen.scenarios("quick", ctx.seed, ks=[10, 26]) if ("pair" in s["why"] or "no-HDPC" in s["why"] or "repair only, overhead 0" in s["why"])][:(14 if not thorough else 60)]
    djobs, dmeta = [], {}
    t0 = time.time()
    for idx, sc in enumerate(scs):
        outcomes = {}
        for thr in THRESHOLDS:
            for release in (False, True):
                sc2 = dict(sc, thr=thr)
                out = native.run(["decode-seq", sc["K"], decscen.TAG_T, thr, "real", decscen.esis_arg(sc)], release=release)
                r = decscen.parse_decode_seq(out) if out.startswith("DATA") else None
                key = "thr=%d/%s" % (thr, "release" if release else "debug")
                outcomes[key] = None if r is None else [(len(st["esis"]), st["result"]) for st in r["steps"]]
        if len({repr(v) for v in outcomes.values()}) != 1:
            ks = sorted(outcomes)
            rep.violated("c07/native/decoder-flavours-agree/#%d" % idx, "decoder flavours", "decoder verdict sequence differs between flavours for scenario '%s': %s" % (sc["why"], {k: (None if v is None else [x[1] is not None for x in v]) for k, v in outcomes.items()}),
                         {"kind": "decode-seq", "K": sc["K"], "T": decscen.TAG_T, "thr": 0, "esis": sc["esis"], "esis_arg": decscen.esis_arg(sc), "why": sc["why"]}, 0.0, "native")
    rep.held("c07/native/decoder-flavours-agree", "%d scenarios x 3 thresholds x 2 profiles: identical verdict sequence and bytes" % len(scs), time.time() - t0, "native/concrete", runs=len(scs) * 6)
    for thr in (0, 60000):
        j, m = c01.run_block_scenarios(ctx, native, [dict(s, thr=thr) for s in scs[:8]], "c07/thr=%d" % thr, profiles=(False, True))
        djobs += j
        dmeta.update(m)
    dres, dn = certify_many(djobs, "dec", max(2, ctx.jobs - 6), tlimit=900)
    c01.report_decoder_certificates(ctx, djobs, dmeta, dres, "c07", native)
    rep.coverage["programs"] = nprog + dn
    # ---- concrete flavours through the public API: std/no_std x debug/release x new/cached/planned/object
    t0 = time.time()
    n = 0
    for K, T in [(1, 3), (10, 1), (11, 3), (26, 8), (50, 2), (101, 1), (110, 1), (160, 3), (230, 1), (257, 2), (300, 1)]:
        outs = {}
        for name, rp in (("std", replay), ("no_std", replay_ns)):
            for release in (False, True):
                o = rp.run(["flavours", K, T], release=release, multiline=True, timeout=1200)
                outs["%s/%s" % (name, "release" if release else "debug")] = o
                n += 1
        lines = {}
        for k, o in outs.items():
            if not o.startswith("flavours"):
                rep.violated("c07/native/public-flavours/K=%d,T=%d/%s" % (K, T, k), "public flavours", "run failed: %s" % o[:160], {"kind": "flavours", "K": K, "T": T}, 0.0, "native")
                continue
            for ln in o.splitlines()[1:]:
                nm, _, val = ln.partition(" ")
                lines["%s/%s" % (k, nm)] = val
        enc = {k: v for k, v in lines.items() if not k.endswith("DECODED")}
        dec = {k: v for k, v in lines.items() if k.endswith("DECODED")}
        if len(set(enc.values())) > 1 or len(set(dec.values())) > 1:
            ref = sorted(enc)[0]
            rep.violated("c07/native/public-flavours/K=%d,T=%d" % (K, T), "public flavours K=%d" % K,
                         "packets or decoded bytes differ between construction paths/builds: %s" % sorted(k for k in enc if enc[k] != enc[ref])[:4],
                         {"kind": "flavours", "K": K, "T": T}, 0.0, "native")
    rep.held("c07/native/public-flavours(std,no_std)x(debug,release)x(new,cached,planned,object)", "%d runs, identical packets and decoded bytes" % n, time.time() - t0, "native/concrete", runs=n)
    kt.join()
    c11.lengths_of = saved


def replay(path):
    import json
    from vlib.common import Scratch
    obj = json.load(open(path))
    sc = Scratch("replay")
    if obj.get("kind") == "flavours":
        for ns in (False, True):
            print(Replay(sc.path, no_std=ns).run(["flavours", obj["K"], obj["T"]], multiline=True)[:1500])
    elif obj.get("kind") == "decode-seq":
        return c01.replay(path)
    else:
        print(json.dumps(obj, indent=1)[:2000])
    return 0
