"""C13 — wire formats. Engine E1 (Kani), exhaustive for the fixed-size formats."""
from vlib.kani import Overlay
from vlib.kaniprop import run_harnesses


def run(ctx):
    rep = ctx.report
    rep.functions = ["base::PayloadId::{new,serialize,deserialize,source_block_number,encoding_symbol_id}",
                     "base::ObjectTransmissionInformation::{serialize,deserialize,accessors}",
                     "base::EncodingPacket::{new,serialize,deserialize,payload_id,data,split}"]
    rep.bounds = {"payload ids": "all 2^32 values and all 2^32 byte strings",
                  "transmission information": "all field values with F < 2^40 (the wire width); all 2^96 buffers",
                  "packet payload length": "serialize/round-trip: each length 0..=8 as its own harness (contents, ids symbolic); parse/re-serialise: symbolic length 0..=8, unwind 14"}
    rep.outside = ["payloads longer than 8 bytes (Vec code is length-generic; not decided)",
                   "OTI values with F >= 2^40, which cannot be represented on the wire"]
    rep.assumptions = ["OTI values are constructed field-by-field (private fields, in-module harness), so "
                       "the layout claim does not depend on ObjectTransmissionInformation::new's validity filter"]
    lens = list(range(0, 9)) + ([16, 33] if ctx.tier == "thorough" else [])
    gen = "\n".join("    #[kani::proof]\n    #[kani::unwind(%d)]\n    fn c13_packet_roundtrip_len%d() { packet_roundtrip::<%d>(); }"
                    % (l + 6, l, l) for l in lens)
    hs = ["c13_payload_id", "c13_payload_id_rejects_25bit", "c13_oti_layout", "c13_oti_reparse",
          "c13_packet_reparse", "c13_packet_short_buffer_panics"] + ["c13_packet_roundtrip_len%d" % l for l in lens]
    for std in ((True, False) if ctx.tier == "thorough" else (True,)):
        ov = Overlay(ctx.scratch.path, "ov_std" if std else "ov_nostd", std=std, debug_assertions=True)
        ov.append_file("base.rs", "c13_base.rs", {"//@PACKET_RT_HARNESSES@": gen})
        run_harnesses(ctx, ov, hs, timeout_s=600, replay_kind="c13")
