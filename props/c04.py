"""C04 — encoding symbols are byte-exact RFC 6330 symbols.
(1) E3: the programs behind the public encoder are validated for all data against the RFC system
    => the intermediate symbols are the RFC's C (and A_rfc is invertible, so C is unique);
(2) E1: enc_into xors exactly the symbols Enc[] selects, for every in-range tuple (one-hot slab);
(3) E2: intermediate_tuple == Tuple[K', X] for every row and every X < 2^24+K' (shared with C15);
(4) concrete differential run of the real packets (source, repair incl. ESI 2^24-1) against the
    independent transcription."""
import random
import time

from vlib import cert, rfc, sx
from vlib.e3run import certify_many, parse_encsolve
from vlib.kani import Overlay, unwindset_for
from vlib.kaniprop import run_harnesses
from vlib.mir import dump_mir, Mir, Exec
from vlib.native import Native, Replay
from props import c06, c15

ENC_RULES = [(r"enc_in(to|dices)", r"^for _ in 1\.\.d\b", 17), (r"enc_in(to|dices)", r"^while b1 >= p", 4), (r"enc_in(to|dices)", r"^for _ in 1\.\.d1\b", 4),
             (r"verif_c04::", r"^while i < L", 29), (r"verif_c04::", r"^while j < d \{", 17), (r"verif_c04::", r"^while c1 >= p", 4),
             (r"verif_c04::", r"^while j < d1", 4)]
ENC_HARNESSES = ["c04_enc_into_selects_rfc_symbols", "c04_enc_into_through_reorder_map", "c04_enc_indices_selects_rfc_symbols"]


def kani_enc_unit(ctx, prefix="c04"):
    ov = Overlay(ctx.scratch.path, "ov_%s_nostd" % prefix, std=False, debug_assertions=True)
    ov.append_file("encoder.rs", "c04_encoder.rs")
    items, descs = [], []
    for h in ENC_HARNESSES:
        uw, desc = unwindset_for(ov, h, ENC_RULES)
        if uw is None:
            items = None
            descs = desc
            break
        items += uw.split(",")
        descs += desc
    ctx.report.coverage["kani_unwindset_enc_into"] = sorted(set(descs))
    run_harnesses(ctx, ov, ENC_HARNESSES, timeout_s=1500, mem_gb=16, replay_kind="enc_into", prefix=prefix + "/",
                  cbmc_args=(["--unwindset", ",".join(sorted(set(items)))] if items else None), jobs=3)


def packet_differential(ctx, native, cases, prefix="c04"):
    """Real encoder packets vs rfc.py, concrete. cases: (K, T, esis)."""
    rep = ctx.report
    t0 = time.time()
    n = 0
    for K, T, esis in cases:
        p = rfc.Params(K)
        data = bytes(((i * 73 + 19) ^ (i >> 3)) & 0xFF for i in range(K * T))
        syms = [data[i * T:(i + 1) * T] for i in range(K)]
        C = rfc.solve_intermediate(p, syms, T)
        for release in (False, True):
            out = native.run(["encode", T, data.hex()] + [str(e) for e in esis], release=release)
            if not out.startswith("packets"):
                rep.violated("%s/packets/K=%d,T=%d" % (prefix, K, T), "packets K=%d" % K, "real encoder failed: %s" % out[:200],
                             {"kind": "packets", "K": K, "T": T, "esis": esis, "data": data.hex()}, 0.0, "native")
                continue
            pk = dict(x.split(":") for x in out.splitlines()[0].split("packets ")[1].split(","))
            for e in list(range(K)) + list(esis):
                n += 1
                want = rfc.enc_symbol(p, C, e if e < K else e + p.Kp - K, T).hex()
                if pk.get(str(e)) != want:
                    rep.violated("%s/packets/K=%d,T=%d,esi=%d" % (prefix, K, T, e), "packet K=%d esi=%d" % (K, e),
                                 "packet with ESI %d of a K=%d, T=%d block is %s, RFC transcription gives %s (%s build)" % (e, K, T, pk.get(str(e)), want, "release" if release else "debug"),
                                 {"kind": "packets", "K": K, "T": T, "esis": esis, "data": data.hex()}, 0.0, "native")
                    break
    rep.held("%s/packets/real-vs-transcription" % prefix, "%d packets compared byte for byte (source, repair K.., 2^24-1, seeded)" % n, time.time() - t0, "native/concrete", packets=n)


def run(ctx):
    rep = ctx.report
    thorough = ctx.tier == "thorough"
    bound = 257 if thorough else 55
    kps = c06.rows_upto(bound)
    rep.functions = ["encoder::SourceBlockEncoder::{new,with_encoding_plan,source_packets,repair_packets}", "encoder::enc_into",
                     "encoder::gen_intermediate_symbols_with_plan", "encoder::SourceBlockEncodingPlan::generate", "base::intermediate_tuple",
                     "rng::rand", "base::deg", "pi_solver::IntermediateSymbolDecoder::execute", "constraint_matrix::generate_constraint_matrix"]
    rep.bounds = {"(1) intermediate symbols": "all data, every K' <= %d (plan path, both profiles)" % bound,
                  "(2) enc_into": "K'=10 geometry (W=17, P=10, P1=11), every in-range tuple, identity and one fixed non-trivial reorder map; per-loop unwinding 17/4/4",
                  "(3) tuples": "all 477 rows x every X < 2^24+K', overflow checks on",
                  "(4) packets": "concrete: K in a spread of sizes (with and without padding), T in {1,3,8}, repair ESIs K, K+1, 2^24-1, 2^23, seeded"}
    rep.assumptions = ["(1)-(3) compose to the statement on paper: C is the RFC's unique solution, the tuple is the RFC's, Enc xors the selected symbols; "
                       "ESI->ISI mapping (X + K' - K) and source packets are observed by (4) only",
                       "byte-column independence for T > 1 rests on C09/C11", "pinned tables stand in for the printed RFC"]
    rep.outside = ["K' > %d for (1)" % bound, "enc_into for other (W,P,P1) geometries (the loop code does not depend on them; C15-(d) covers index ranges for all rows)"]
    native = Native(ctx.scratch.path)
    import threading
    kt = threading.Thread(target=kani_enc_unit, args=(ctx,))
    kt.start()
    # (1)
    jobs, problems = [], []
    t0 = time.time()
    for kp in kps:
        for release in (False, True):
            out = native.run(["plan", kp, 2], release=release)
            tag = "K'=%d/plan/%s" % (kp, "release" if release else "debug-assertions")
            if not out.startswith("plan"):
                rep.violated("c04/native/%s" % tag, "native %s" % tag, "plan generation failed: %s" % out[:150], {"kind": "plan", "K": kp}, 0.0, "native")
                continue
            r = parse_encsolve(out)
            p = rfc.Params(kp)
            bad = cert.check_system_concrete(p, r["C"], range(p.Kp), r["src"], 2)
            if bad:
                rep.violated("c04/native/%s" % tag, "native %s" % tag, "plan replay on tagged data violates %s" % bad[:4], {"kind": "plan", "K": kp}, 0.0, "native")
            jobs.append((tag, kp, r["program"]))
    results, nprog = certify_many(jobs, "enc", max(2, ctx.jobs - 4), tlimit=3000 if thorough else 600)
    c06.report_certificates(ctx, jobs, results, nprog, "c04", native)
    rep.coverage["programs"] = nprog
    # (3)
    sx.reset()
    mir = Mir(dump_mir(ctx.scratch.path, overflow_checks=True))
    ex = Exec(mir, symbolic_tables=("V0", "V1", "V2", "V3"))
    t2 = c15.table_from_mir(ex, "SYSTEMATIC_INDICES_AND_PARAMETERS")
    p1t = c15.table_from_mir(ex, "P1_TABLE")
    c15.check_tuples(ctx, ex, t2, p1t, "overflow-checks=on", Replay(ctx.scratch.path), prefix="c04",
                     rows=None if thorough else [i for i, r in enumerate(rfc.TABLE2) if r[0] <= 600])
    rep.stubs = sorted(set(rep.stubs) | ex.models_used)
    # (4)
    rnd = random.Random(ctx.seed)
    cases = []
    for K in [1, 2, 9, 10, 11, 13, 26, 27, 55] + ([101, 127] if thorough else []):
        for T in ((1, 3, 8) if K <= 13 else (2,)):
            esis = [K, K + 1, (1 << 24) - 1, 1 << 23] + [rnd.randrange(K, 1 << 24) for _ in range(3)]
            cases.append((K, T, esis))
    packet_differential(ctx, native, cases)
    # multi-block objects: repair packets of every block (incl. neighbouring block sizes with different K') vs the transcription
    from props.c05 import rfc_layout
    t0 = time.time()
    n = 0
    for F, T, Z in ((168, 8, 2), (100, 4, 2), (111, 3, 3), (212, 4, 2), (37, 1, 2)):
        out = native.run(["object-packets", F, T, Z, 1, 1, 3], release=True)
        if not out.startswith("object"):
            rep.violated("c04/object-packets/F=%d,T=%d,Z=%d" % (F, T, Z), "object packets", "Encoder::new failed: %s" % out[:150], {"kind": "object-packets", "args": [F, T, Z, 1, 1, 3]}, 0.0, "native")
            continue
        data = bytes(((i * 53 + 11) ^ (i >> 3)) & 0xFF for i in range(F))
        blocks = {}
        for b, m, sym in rfc_layout(F, T, Z, 1, 1, data):
            blocks.setdefault(b, []).append(sym)
        for b, e, h in [x.split(":") for x in out.splitlines()[0].split("object ")[1].split(",")]:
            b, e = int(b), int(e)
            K = len(blocks[b])
            p = rfc.Params(K)
            if "C" not in blocks.setdefault(("C", b), {}):
                blocks[("C", b)]["C"] = rfc.solve_intermediate(p, blocks[b], T)
            want = rfc.enc_symbol(p, blocks[("C", b)]["C"], e if e < K else e + p.Kp - K, T).hex()
            n += 1
            if h != want:
                rep.violated("c04/object-packets/F=%d,T=%d,Z=%d/block=%d,esi=%d" % (F, T, Z, b, e), "object packet",
                             "packet (%d,%d) of the %d-byte object (T=%d, Z=%d; block of K=%d symbols) is %s, the RFC symbol is %s" % (b, e, F, T, Z, K, h, want),
                             {"kind": "object-packets", "args": [F, T, Z, 1, 1, 3]}, 0.0, "native")
                break
    rep.held("c04/object-packets/multi-block-objects-vs-transcription", "%d packets (source and repair) of 5 multi-block objects" % n, time.time() - t0, "native/concrete", packets=n)
    # rows above the certificate bound: concrete system + repair-packet check of the real encoder (every row up to 1200, all in thorough)
    big = [r[0] for r in rfc.TABLE2 if bound < r[0] <= (1200 if not thorough else 3000)]
    c06.concrete_large_rows(ctx, native, big, "c04", thorough)
    kt.join()


def replay(path):
    return c06.replay(path)
