"""C10 — octet arithmetic is GF(256) of RFC 6330 §5.7. Engine E1 (Kani), exhaustive domain."""
from vlib.kani import Overlay
from vlib.kaniprop import run_harnesses

FUNCS = ["octet::Octet::{new,zero,one,alpha,byte,fma}", "octet::<Octet as Add/Sub/AddAssign/Mul/Div>",
         "octet::OCTET_MUL", "octet::OCTET_MUL_LOW_BITS", "octet::OCTET_MUL_HI_BITS",
         "octet::{const_mul,calculate_octet_mul_table,calculate_octet_mul_hi_table,calculate_octet_mul_low_table}"]


def run(ctx):
    rep = ctx.report
    rep.functions = FUNCS
    rep.bounds = {"operands": "all 2^16 pairs (x 2^8 accumulators for fma); alpha exponents 0..255",
                  "unwind": "9 (8-step reference multiplication)"}
    thorough = ctx.tier == "thorough"
    if thorough:
        rep.bounds["ring laws"] = "all 2^24 triples, split into 256 harnesses on the first operand"
        gen = "\n".join(
            "    #[kani::proof]\n    #[kani::unwind(9)]\n    fn c10_ring_a%03d() { ring_laws(%d); }" % (a, a)
            for a in range(256))
    else:
        rep.bounds["ring laws"] = "quick: first operand in {2, 0x8E, 0xFF} x all 2^16 (b,c); thorough: all 2^24"
        gen = "\n".join(
            "    #[kani::proof]\n    #[kani::unwind(9)]\n    fn c10_ring_a%03d() { ring_laws(%d); }" % (a, a)
            for a in (2, 0x8E, 0xFF))
    rep.outside = [] if thorough else ["associativity/distributivity for first operands other than {2,0x8E,0xFF} (thorough tier covers all)"]
    rep.assumptions = ["oracle: 8-step shift-and-xor product modulo 0x11D written in the harness",
                       "Kani models unoptimised MIR; const tables are evaluated by rustc's const evaluator"]
    ov = Overlay(ctx.scratch.path, "ov_std", std=True, debug_assertions=True)
    ov.append_file("octet.rs", "c10_octet.rs", {"//@RING_LAW_HARNESSES@": gen})
    hs = ["c10_mul_pairs", "c10_add_is_xor", "c10_alpha", "c10_div_by_zero_panics", "c10_alpha_256_panics"]
    hs += ["c10_ring_a%03d" % a for a in (range(256) if thorough else (2, 0x8E, 0xFF))]
    run_harnesses(ctx, ov, hs, timeout_s=900 if thorough else 420,
                  replay_kind="c10", key_of=lambda h, r: h)
