"""C09 — the code is GF(256)-linear and column-wise.  Engine E1 on the units that make it so:
(i) slab addressing, (ii) perform_op frame condition + byte-wise semantics, (iii) kernels (C11, by
reference), (iv) enc_into selects the RFC symbols independently of the data (C04 harness)."""
import threading

from vlib.kani import Overlay
from vlib.kaniprop import run_harnesses
from props import c04

SLAB_HARNESSES = ["c09_slab_get_addresses_physical_range", "c09_slab_pair_is_disjoint_and_in_bounds", "c09_slab_pair_same_symbol_panics",
                  "c09_slab_out_of_range_panics", "c09_perform_op_frame_and_semantics", "c09_reorder_op_is_a_relabelling"]


def slab_configs(tier):
    # (COUNT, T, MAPPED, scalar, op kinds): T crosses the 8-byte stride of the portable kernels.  Every multiplied byte is a
    # look-up in the 64 KiB product table (costly for CBMC), so the wide configurations exercise AddAssign only (kinds = 1).
    cfgs = [(3, 1, True, "kani::any()", 3), (3, 3, True, "0x53", 3), (2, 9, False, "0x53", 1), (4, 2, True, "0xA7", 3)]
    if tier == "thorough":
        # (multiplying ops at T >= 8 need > 12 GB and ~10 min each: the wide thorough configurations stay add-only)
        cfgs += [(2, 2, False, "kani::any()", 3), (3, 8, True, "0x8E", 1), (2, 17, False, "0x1D", 1), (4, 4, True, "0x02", 1), (3, 2, True, "0x02", 3)]
    return cfgs


def run_slab(ctx, prefix, std=False, harnesses=None, jobs=None):
    ths = []
    # every perform_op harness needs several GB: at most 4 configurations (x `jobs` harnesses) are in flight at a time
    gate = threading.Semaphore(4 if ctx.tier == "quick" else 2)

    def gated(*a, **kw):
        with gate:
            run_harnesses(*a, **kw)
    for (count, t, mapped, scalar, kinds) in slab_configs(ctx.tier):
        ov = Overlay(ctx.scratch.path, "ov_%s_slab_%d_%d_%d_%d" % (prefix, count, t, mapped, kinds), std=std, debug_assertions=True)
        ov.append_file("symbol_slab.rs", "c09_symbol_slab.rs", {"@COUNT@": str(count), "@T@": str(t), "@MAPPED@": "true" if mapped else "false",
                                                                 "@UNWIND@": str(max(count * t + 2, 12)), "@SCALAR@": scalar, "@KINDS@": str(kinds)})
        th = threading.Thread(target=gated, args=(ctx, ov, harnesses or SLAB_HARNESSES),
                              kwargs=dict(timeout_s=1200 if ctx.tier == "quick" else 3000, mem_gb=20 if ctx.tier == "quick" else 30, replay_kind="slab", prefix="%s/count=%d,T=%d,%s/" % (prefix, count, t, "mapped" if mapped else "identity"),
                                          jobs=jobs or (4 if ctx.tier == "quick" else 3)))
        th.start()
        ths.append(th)
    for th in ths:
        th.join()


def run(ctx):
    rep = ctx.report
    rep.functions = ["symbol_slab::SymbolSlab::{get,get_mut,get_pair_mut,add_assign,mulassign_scalar,fma,set_reorder,physical_index,len,symbol_size}",
                     "operation_vector::perform_op", "encoder::enc_into", "octets::{add_assign,mulassign_scalar,fused_addassign_mul_scalar} (no_std dispatch -> portable kernels)"]
    rep.bounds = {"slab": "configurations (symbols, T, reorder map) = %s; data, indices, op kind, permutation symbolic; scalar symbolic where marked any()" % (slab_configs(ctx.tier),),
                  "enc_into": "K'=10 geometry, every in-range tuple (see C04)"}
    rep.assumptions = ["composition on paper: (i) symbols are disjoint byte ranges addressed only through the slab; (ii) every op is a byte-wise "
                       "GF(256)-linear map on one symbol with a frame condition; (iii) kernels are element-wise (C11); (iv) Enc selects symbols "
                       "independently of the data => every encoding symbol is the same GF(256)-linear function applied to every byte column",
                       "no_std flavour (portable kernels) so that the dispatch executes under Kani; SIMD kernels are covered by C11"]
    rep.outside = ["a direct comparison of T-byte packets with T one-byte encodings through the whole encoder (plan replay is out of CBMC's reach, DESIGN §1)",
                   "slab shapes beyond the listed configurations"]
    t = threading.Thread(target=c04.kani_enc_unit, args=(ctx, "c09"))
    t.start()
    slab_alignment_cross_check(ctx)
    run_slab(ctx, "c09")
    t.join()


def slab_alignment_cross_check(ctx):
    """Concrete cross-check (not what decides the level): the kernels the CPU dispatch really selects, applied through the slab to
    symbols at every byte alignment (symbol i starts at i*T) and every T residue of the 8/16/32/64-byte strides, against the field definition."""
    import time
    from vlib import rfc
    from vlib.native import Native
    rep = ctx.report
    native = Native(ctx.scratch.path)
    t0 = time.time()
    n = 0
    sizes = list(range(1, 73)) + [77, 100, 127, 128, 129, 191, 193, 255, 257, 1316]
    for T in sizes:
        for release in ((False, True) if T % 7 == 0 or T > 72 else (True,)):
            out = native.run(["slab-ops", T, 5], release=release)
            if not out.startswith("slab"):
                rep.violated("c09/native/slab-ops/T=%d" % T, "slab ops T=%d" % T, "run failed: %s" % out[:150], {"kind": "slab-ops", "T": T}, 0.0, "native")
                continue
            lines = {ln.split(" ", 1)[0]: ln.split(" ", 1)[1] for ln in out.splitlines()[1:] if " " in ln}
            syms = [bytearray.fromhex(x) for x in lines["INIT"].split(",")]
            for op in lines["OPS"].split(";"):
                k, d, s_, c = [int(x) for x in op.split(",")]
                if k == 0:
                    syms[d] = bytearray(x ^ y for x, y in zip(syms[d], syms[s_]))
                elif k == 1:
                    syms[d] = bytearray(rfc.gf_mul(x, c) for x in syms[d])
                else:
                    syms[d] = bytearray(x ^ rfc.gf_mul(y, c) for x, y in zip(syms[d], syms[s_]))
            got = [bytes.fromhex(x) for x in lines["FINAL"].split(",")]
            n += 1
            if [bytes(x) for x in syms] != got:
                bad = next(i for i in range(len(got)) if bytes(syms[i]) != got[i])
                col = next(j for j in range(T) if syms[bad][j] != got[bad][j])
                rep.violated("c09/native/slab-ops/T=%d" % T, "slab ops T=%d" % T,
                             "symbol operations on a slab with T=%d (symbols at byte offsets i*T) differ from the byte-wise field operations: symbol %d byte %d (%s build)" % (T, bad, col, "release" if release else "debug"),
                             {"kind": "slab-ops", "T": T, "count": 5}, 0.0, "native")
    rep.held("c09/native/slab-ops-at-every-alignment-and-T-residue", "%d runs of 20 dispatched kernel operations each, T in 1..72 and 10 larger sizes" % n, time.time() - t0, "native/concrete", runs=n)


def replay(path):
    import json
    from vlib.common import Scratch
    from vlib.native import Native
    obj = json.load(open(path))
    if obj.get("kind") == "slab-ops":
        print(Native(Scratch("replay").path).run(["slab-ops", obj["T"], obj.get("count", 5)], release=True)[:2000])
    else:
        print(json.dumps(obj, indent=1)[:3000])
    return 0
