"""C11 — bulk symbol kernels equal element-wise field operations; C12 shares the harnesses."""
import os

from vlib.kani import Overlay
from vlib.kaniprop import run_harnesses

STUB_MODELS = open(os.path.join(os.path.dirname(os.path.dirname(os.path.abspath(__file__))), "harness", "stub_models.rs")).read()


# kernel name -> (kind, cfg-std-only, wrapper body, stubs needed)
KERNELS = {
    "add_assign_avx512": ("add", True, "unsafe { add_assign_avx512(d, s) }", []),
    "add_assign_avx2": ("add", True, "unsafe { add_assign_avx2(d, s) }", []),
    "add_assign_ssse3": ("add", True, "unsafe { add_assign_ssse3(d, s) }", []),
    "add_assign_fallback": ("add", False, "add_assign_fallback(d, s)", []),
    "mulassign_scalar_avx512": ("mul", True, "unsafe { mulassign_scalar_avx512(d, c) }", ["512"]),
    "mulassign_scalar_avx2": ("mul", True, "unsafe { mulassign_scalar_avx2(d, c) }", ["256"]),
    "mulassign_scalar_ssse3": ("mul", True, "unsafe { mulassign_scalar_ssse3(d, c) }", ["128"]),
    "mulassign_scalar_fallback": ("mul", False, "mulassign_scalar_fallback(d, c)", []),
    "fused_addassign_mul_scalar_avx512": ("fma", True, "unsafe { fused_addassign_mul_scalar_avx512(d, s, c) }", ["512"]),
    "fused_addassign_mul_scalar_avx2": ("fma", True, "unsafe { fused_addassign_mul_scalar_avx2(d, s, c) }", ["256"]),
    "fused_addassign_mul_scalar_ssse3": ("fma", True, "unsafe { fused_addassign_mul_scalar_ssse3(d, s, c) }", ["128"]),
    "fused_addassign_mul_scalar_fallback": ("fma", False, "fused_addassign_mul_scalar_fallback(d, s, c)", []),
    "fused_addassign_mul_scalar_binary_avx512": ("bin", True, "unsafe { fused_addassign_mul_scalar_binary_avx512(d, b, c) }", ["maskz"]),
    "fused_addassign_mul_scalar_binary_avx2": ("bin", True, "unsafe { fused_addassign_mul_scalar_binary_avx2(d, b, c) }", ["256", "bextr"]),
    # public entry points: executable only where dispatch does not need cpuid (no_std)
    "pub_add_assign": ("add", None, "add_assign(d, s)", []),
    "pub_mulassign_scalar": ("mul", None, "mulassign_scalar(d, c)", []),
    "pub_fused_addassign_mul_scalar": ("fma", None, "fused_addassign_mul_scalar(d, s, c)", []),
    "pub_fused_addassign_mul_scalar_binary": ("binnz", None, "fused_addassign_mul_scalar_binary(d, b, c)", []),
}
STUB_ATTR = {
    "128": "#[kani::stub(core::arch::x86_64::_mm_shuffle_epi8, stubs::mm_shuffle_epi8)]",
    "256": "#[kani::stub(core::arch::x86_64::_mm256_shuffle_epi8, stubs::mm256_shuffle_epi8)]",
    "512": "#[kani::stub(core::arch::x86_64::_mm512_shuffle_epi8, stubs::mm512_shuffle_epi8)]",
    "bextr": "#[kani::stub(core::arch::x86_64::_bextr2_u32, stubs::bextr2_u32)]",
    "maskz": "#[kani::stub(core::arch::x86_64::_mm512_maskz_mov_epi8, stubs::mm512_maskz_mov_epi8)]",
}
SIG = {"add": "(d: &mut [u8], s: &[u8])", "mul": "(d: &mut [u8], c: &Octet)", "fma": "(d: &mut [u8], s: &[u8], c: &Octet)",
       "bin": "(d: &mut [u8], b: &BinaryOctetVec, c: &Octet)", "binnz": "(d: &mut [u8], b: &BinaryOctetVec, c: &Octet)"}


def generate(kernels, lengths, scalars=((0, 8),)):
    """scalars: list of (hi, bits) for the kernels that take a table-indexing scalar (mul/fma)."""
    wrappers, harnesses, names = [], [], []
    for k in kernels:
        kind, std_only, body, stubs = KERNELS[k]
        wrappers.append("    fn w_%s%s { %s }" % (k, SIG[kind], body))
        for n in lengths:
            attrs = "".join("    %s\n" % STUB_ATTR[s] for s in stubs)
            variants = scalars if kind in ("mul", "fma") else [None]
            for sc in variants:
                if kind in ("bin", "binnz"):
                    h = "c11_%s_len%d" % (k, n)
                    call = "check_bin::<%d, %d>(w_%s, %s)" % (n, (n + 63) // 64, k, "true" if kind == "binnz" else "false")
                elif kind == "add":
                    h = "c11_%s_len%d" % (k, n)
                    call = "check_add::<%d>(w_%s)" % (n, k)
                else:
                    hi, bits = sc
                    h = "c11_%s_len%d_c%s" % (k, n, "all" if bits == 8 else ("%02x" % hi if bits == 0 else "%02xto%02x" % (hi << bits, (hi << bits) | ((1 << bits) - 1))))
                    call = "check_%s::<%d>(w_%s, %d, %d)" % (kind, n, k, hi, bits)
                names.append((h, bool(stubs)))
                harnesses.append("    #[kani::proof]\n    #[kani::unwind(%d)]\n%s    fn %s() { %s; }" % (max(n + 3, 12), attrs, h, call))
    return "\n".join(wrappers), "\n".join(harnesses), names


VEC = {"avx512": 64, "avx2": 32, "ssse3": 16}
SLICE_LEN = {"avx512": 65, "avx2": 33, "ssse3": 17, "fallback": 3, "pub": 3}


def width(kernel):
    for k, v in VEC.items():
        if k in kernel:
            return v
    return None


def lengths_of(kernel, tier):
    """Lengths per kernel. Every byte handled by a scalar tail / fall-back loop is a look-up in the 64 KiB product table,
    which costs CBMC ~7 s per byte, so table kernels get the boundary lengths of their own vector width; kernels without a
    table (add, binary fma) get the full list.
    Thorough adds lengths around the validated quick set.  Larger thorough sets (0..=136 for the add/binary kernels, 0..=V+1 resp.
    0..9 plus the V/2V boundaries for the table kernels, all 16 scalar slices) were started twice but did not finish within
    3.5 h resp. 75 min on this host while other runs were active, so they are NOT what the thorough tier claims."""
    kind = KERNELS[kernel][0]
    v = width(kernel)
    thorough = tier == "thorough"
    if kind in ("add", "bin"):
        # at least two full vector iterations of the widest kernel (loop-carried pointers/indices) + head/tail
        ls = [0, 1, 7, 8, 9, 15, 16, 17, 31, 32, 33, 63, 64, 65, 129] + ([2, 3, 24, 47, 48, 96, 127, 128, 130] if thorough else [])
        if kind == "bin":
            # the SIMD binary kernels are only entered with non-empty operands (the dispatcher returns early)
            ls = [1, 9, 31, 32, 33, 63, 64, 65, 128, 131, 192] + ([2, 17, 47, 96, 127, 129, 191] if thorough else [])
        return sorted(set(ls))
    if v is None:            # fall-back kernels and the no_std public entry points
        return sorted([0, 1, 2, 3, 9] + ([4, 7, 8] if thorough else []))
    return sorted([0, 1, v, v + 1, 2 * v + 1] + ([2, v - 1, 2 * v] if thorough else []))


def slice_len(kernel):
    for k, v in SLICE_LEN.items():
        if k in kernel:
            return v
    return 17


def run_kernels(ctx, prefix, tier, kernels=None, const_scalars=(0x53,), slices=(5,), timeout_s=900, da_flavours=(True,), mem_gb=14):
    """(B) the lengths of lengths_of() with the table-indexing scalar fixed to each of `const_scalars` (contents symbolic;
    kernels without a table get a fully symbolic scalar); (A) at one length per table kernel (a full vector + tail byte)
    the scalar ranges over the 16-value slices `slices` (16 slices = all 256 scalars)."""
    std_all = [k for k, v in KERNELS.items() if v[1] is not None]
    nostd_all = [k for k, v in KERNELS.items() if v[1] is None]
    if kernels is not None:
        std_all = [k for k in std_all if k in kernels]
        nostd_all = [k for k in nostd_all if k in kernels]
    covered = {}
    import threading

    def one(std, ks, da, jobs):
        ov = Overlay(ctx.scratch.path, "ov_%s_%s_da%d" % (prefix, "std" if std else "nostd", da), std=std, debug_assertions=da)
        ws, hs, names = [], [], []
        for k in ks:
            ls = lengths_of(k, tier)
            covered[k] = ls
            w, h, n = generate([k], ls, [(c, 0) for c in const_scalars])
            ws.append(w)
            hs.append(h)
            names += n
            if KERNELS[k][0] in ("mul", "fma"):
                _, h2, n2 = generate([k], [slice_len(k)], [(sl, 4) for sl in slices])
                hs.append(h2)
                names += n2
            if KERNELS[k][0] == "add":
                # start alignment: dest 3 bytes, src 5 bytes into their allocations
                for n_ in ((65, 77, 131) if tier != "thorough" else (9, 17, 33, 65, 77, 129, 131)):
                    hn = "c11_%s_len%d_misaligned" % (k, n_)
                    hs.append("    #[kani::proof]\n    #[kani::unwind(%d)]\n    fn %s() { check_add_misaligned::<%d, %d, %d>(w_%s); }" % (n_ + 12, hn, n_, n_ + 3, n_ + 5, k))
                    names.append((hn, False))
        ov.append_file("octets.rs", "c11_octets.rs", {"//@STUB_MODELS@": STUB_MODELS if std else "", "//@KERNEL_WRAPPERS@": "\n".join(ws),
                                                      "//@HARNESSES@": "\n".join(hs)})
        run_harnesses(ctx, ov, [n for n, _ in names], timeout_s=timeout_s, mem_gb=mem_gb, stubbing=True, replay_kind="kernel",
                      prefix=prefix + "/", jobs=jobs)
    for da in da_flavours:
        ths = []
        if std_all:
            ths.append(threading.Thread(target=one, args=(True, std_all, da, max(2, ctx.jobs - 4 if nostd_all else ctx.jobs))))
        if nostd_all:
            ths.append(threading.Thread(target=one, args=(False, nostd_all, da, 4 if std_all else ctx.jobs)))
        for t in ths:
            t.start()
        for t in ths:
            t.join()
    ctx.report.coverage["lengths_per_kernel"] = covered


def describe(rep, tier):
    rep.functions = ["octets::" + k for k in KERNELS if not k.startswith("pub_")] + \
        ["octets::{add_assign,mulassign_scalar,fused_addassign_mul_scalar,fused_addassign_mul_scalar_binary} (no_std dispatch)",
         "octets::BinaryOctetVec::{new,len,padding_bits,select_mask,to_octet_vec}"]
    rep.bounds = {"lengths": "one harness per kernel and length (concrete length, exact heap allocations); add/binary kernels: %s; table kernels "
                             "(mul, fma) of vector width V: %s; fall-back kernels and no_std entry points: %s (see coverage.lengths_per_kernel)" % (
        ("the quick lengths plus 2,3,24,47,48,96,127,128,130", "0,1,2,V-1,V,V+1,2V,2V+1", "0,1,2,3,4,7,8,9") if tier == "thorough" else ("0,1,7,8,9,15,16,17,31,32,33,63,64,65,129 (binary: 1,9,31,32,33,63,64,65,128,131,192)", "0,1,V,V+1,2V+1", "0,1,2,3,9")),
        "contents": "all byte values symbolic",
        "scalar": "kernels without a table (add, binary fma): all 256 values at every length; table kernels (mul, fma): every length at the fixed "
                  "scalars listed in the obligation names, plus 16-value scalar slices at one length per kernel (a full vector and a tail byte); "
                  "thorough runs 4 of the 16 slices and a second fixed scalar",
        "packed bit vector": "all ceil(L/64) words symbolic"}
    rep.stubs = ["_mm_shuffle_epi8 / _mm256_shuffle_epi8 / _mm512_shuffle_epi8: per-lane table look-up model (Kani has no model of the LLVM pshufb intrinsic)",
                 "_bextr2_u32: shift-and-mask model", "both validated against this host's CPU by tools/validate_stubs (setup)"]
    rep.assumptions = ["Kani's memory model has no alignment faults; start alignment is exercised for the add kernels only (operands 3 resp. 5 bytes into their allocations); C09 cross-checks every alignment concretely through the slab",
                       "is_x86_feature_detected! dispatch is not executed (inline cpuid); each kernel is called directly, the public entry points in the no_std flavour",
                       "oracle: shift-and-xor multiplication modulo 0x11D in the harness"]
    rep.outside = ["NEON kernels (not compiled on this host)", "lengths above the bound", "the run-time dispatch itself",
                   "the full product lengths x scalars for the table kernels (each dimension is covered with the other at the listed values: "
                   "the per-byte computation does not depend on the length, the loop/tail structure does not depend on the scalar)"]


def run(ctx):
    describe(ctx.report, ctx.tier)
    thorough = ctx.tier == "thorough"
    run_kernels(ctx, "c11", ctx.tier, const_scalars=(0x53, 0x02) if thorough else (0x53,),
                slices=(0, 5, 10, 15) if thorough else (5,), timeout_s=2400 if thorough else 600, mem_gb=24 if thorough else 14)
