"""C05 — object partitioning and source packet layout follow RFC 6330 §4.4.1.2.
E2: partition(I,J) over all u32; E1: calculate_block_offsets, create_symbols, unpack_sub_blocks (inverse),
Decoder::new; concrete: padding/numbering of whole objects against an independent layout computation."""
import threading
import time

from vlib import sx
from vlib.kani import Overlay
from vlib.kaniprop import run_harnesses
from vlib.mir import dump_mir, Mir, Exec, Int
from vlib.native import Native
from vlib.smtprop import discharge

SHAPES = [  # (K, T, N, Al); Vec<Vec<u8>> growth limits CBMC to two symbols when N > 1.
    # Al > 1 shapes include N not dividing T/Al (unequal sub-symbols measured in alignment units, not bytes)
    (2, 4, 2, 1), (2, 6, 2, 2), (2, 5, 2, 1), (2, 8, 3, 1), (3, 6, 1, 1), (2, 12, 2, 4), (2, 6, 3, 2),
]
SHAPES_THOROUGH = [(2, 7, 3, 1), (2, 12, 5, 2), (2, 9, 4, 1), (2, 16, 3, 4), (2, 3, 3, 1), (2, 10, 4, 1)]
TZ = [(1, 1), (3, 2), (8, 3), (5, 4)]
TZ_THOROUGH = [(2, 2), (4, 4), (7, 3), (6, 1), (1, 4)]


def rfc_layout(F, T, Z, N, Al, data):
    """Independent computation of every source symbol: list of (sbn, esi, bytes)."""
    Kt = -(-F // T)

    def part(I, J):
        IL, IS = -(-I // J), I // J
        JL = I - IS * J
        return IL, IS, JL, J - JL
    KL, KS, ZL, ZS = part(Kt, Z)
    TL, TS, NL, NS = part(T // Al, N)
    out = []
    pos = 0
    padded = data + bytes(Kt * T - F)
    for b in range(Z):
        K = KL if b < ZL else KS
        block = padded[pos:pos + K * T]
        pos += K * T
        for m in range(K):
            sym = b""
            start = 0
            for j in range(N):
                size = (TL if j < NL else TS) * Al
                sym += block[start + m * size:start + (m + 1) * size]
                start += K * size
            out.append((b, m, sym))
    return out


def offsets_and_decoder_new(ctx, mir, tag, ZB):
    """E2: calculate_block_offsets and Decoder::new over symbolic (F, T, Z <= ZB)."""
    from vlib.mir import Agg, Ref, SliceVal, VecVal
    from vlib.smtprop import find_fn
    rep = ctx.report
    F, T, Z, DL = sx.var("F", 64), sx.var("T", 16), sx.var("Z", 8), sx.var("DL", 64)
    cfgv = Agg("struct", [Int(F, "u64"), Int(T, "u16"), Int(Z, "u8"), Int(sx.const(1), "u16"), Int(sx.const(1), "u8")],
               ["transfer_length", "symbol_size", "num_source_blocks", "num_sub_blocks", "symbol_alignment"], "ObjectTransmissionInformation")
    Kt = sx.ceil_div(F, T)
    KL, KS = sx.ceil_div(Kt, Z), sx.div(Kt, Z)
    ZL = sx.sub(Kt, sx.mul(KS, Z))
    valid = sx.and_(sx.ge(F, sx.const(1)), sx.le(F, sx.const(942574504275)), sx.ge(T, sx.const(1)), sx.ge(Z, sx.const(1)), sx.le(Z, sx.const(ZB)),
                    sx.le(Z, Kt), sx.le(KL, sx.const(56403)))
    names = ["F", "T", "Z", "DL"]

    def expected(i):
        """(start, size) of block i per RFC 4.4.1.2 in unbounded integers"""
        it = sx.const(i)
        size = sx.mul(sx.ite(sx.lt(it, ZL), KL, KS), T)
        start = sx.ite(sx.le(it, ZL), sx.mul(sx.mul(it, KL), T), sx.add(sx.mul(sx.mul(ZL, KL), T), sx.mul(sx.mul(sx.sub(it, ZL), KS), T)))
        return start, size

    def rp(m):
        return {"inputs": {k: m.get(k) for k in names}, "reproduced_in": ["MIR of current source: calculate_block_offsets / Decoder::new with these (F,T,Z)"]}
    # ---- calculate_block_offsets(data, &config); data.len() = DL with DL = F (what Encoder::new passes)
    ex = Exec(mir, loop_bound=ZB + 2)
    store = {"cfg": cfgv, "data": SliceVal(DL)}
    outs = ex.call("calculate_block_offsets", [Ref(store, "data"), Ref(store, "cfg")])
    rets = [o for o in outs if o.kind == "ret"]
    bad = [o for o in outs if o.kind == "panic"]
    wrong = []
    for o in rets:
        v = o.value
        n = len(v.items)
        ok = [sx.eq(Z, sx.const(n))]
        for i, it in enumerate(v.items):
            s_, e_ = it.fields[0].t, it.fields[1].t
            es, esz = expected(i)
            ok += [sx.eq(s_, es), sx.eq(sx.sub(e_, s_), esz)]
            if i + 1 < n:
                ok.append(sx.le(e_, F))
        if n:
            last = v.items[-1].fields[1].t
            ok += [sx.ge(last, F), sx.lt(sx.sub(last, F), T)]
        wrong.append(sx.and_(o.cond, sx.not_(sx.and_(*ok))))
    pre = [valid, sx.eq(DL, F)]
    for z in range(1, ZB + 1):     # one query per block count: keeps the divisors of the partition constant
        discharge(ctx, "c05/E2/block-offsets=Z-contiguous-ranges-of-KL*T-then-KS*T,only-last-padded/Z=%d[%s]" % (z, tag),
                  pre + [sx.eq(Z, sx.const(z)), sx.or_(*wrong)], names, replay=rp, key_of=lambda r: "offsets-wrong", kind="offsets")
    discharge(ctx, "c05/E2/block-offsets-never-panic-on-valid-configurations[%s]" % tag, pre + [sx.or_(*[o.cond for o in bad])] if bad else [sx.FALSE], names, replay=rp, key_of=lambda r: "offsets-panic", kind="offsets")
    discharge(ctx, "c05/E2/block-offsets-witness[%s]" % tag, pre + [sx.or_(*[o.cond for o in rets]), sx.eq(Z, sx.const(3)), sx.gt(ZL, sx.const(0)), sx.lt(ZL, sx.const(3)), sx.gt(sx.rem(F, T), sx.const(0))], names, expect="sat")
    rep.functions = sorted(set(rep.functions) | ex.functions_executed)
    rep.stubs = sorted(set(rep.stubs) | ex.models_used)
    # ---- Decoder::new(config): block decoders created with ids 0..Z-1 and lengths KL*T resp. KS*T
    ex = Exec(mir, loop_bound=ZB + 2)
    calls = []

    def sbd_new(exe, args):
        sid, cfg_ref, blen = args
        return [(sx.TRUE, "ret", Agg("struct", [sid, blen], ["source_block_id", "block_length"], "SourceBlockDecoder(contract)"), "")]
    ex.contracts["SourceBlockDecoder::new"] = sbd_new
    dn = find_fn(mir, r"^decoder::<impl at src/decoder\.rs[^>]*>::new$", ["ObjectTransmissionInformation"])
    outs = ex.call(dn, [cfgv])
    rets = [o for o in outs if o.kind == "ret"]
    bad = [o for o in outs if o.kind == "panic"]
    wrong = []
    for o in rets:
        decs = o.value.fields[1]
        blocks = o.value.fields[2]
        n = len(decs.items)
        ok = [sx.eq(Z, sx.const(n)), sx.eq(blocks.fields[1].t, Z)]
        for i, d in enumerate(decs.items):
            _, esz = expected(i)
            ok += [sx.eq(d.fields[0].t, sx.const(i)), sx.eq(d.fields[1].t, esz)]
        wrong.append(sx.and_(o.cond, sx.not_(sx.and_(*ok))))
    for z in range(1, ZB + 1):
        discharge(ctx, "c05/E2/Decoder::new=Z-block-decoders-numbered-0..Z-1-of-KL*T-then-KS*T-bytes/Z=%d[%s]" % (z, tag),
                  [valid, sx.eq(Z, sx.const(z)), sx.or_(*wrong)], names[:3], replay=rp, key_of=lambda r: "decoder-new-wrong", kind="decoder-new")
    discharge(ctx, "c05/E2/Decoder::new-never-panics-on-valid-configurations[%s]" % tag, [valid, sx.or_(*[o.cond for o in bad])] if bad else [sx.FALSE], names[:3], replay=rp, key_of=lambda r: "decoder-new-panic", kind="decoder-new")
    rep.functions = sorted(set(rep.functions) | ex.functions_executed)
    rep.stubs = sorted(set(rep.stubs) | ex.models_used)
    # ---- SourceBlockDecoder::new(id, &config, block_length): K = block_length / T when T | block_length (what Decoder::new passes)
    ex = Exec(mir)
    BL, K = sx.var("BL", 64), sx.var("K", 32)
    sn = find_fn(mir, r"^decoder::<impl at src/decoder\.rs[^>]*>::new$", ["u8", "&ObjectTransmissionInformation", "u64"])
    store2 = {"cfg": cfgv}
    ex.extra_models[r"^<(std::collections::)?(HashSet|BTreeSet)<.*>>::new$|^(HashSet|BTreeSet|Set)::<.*>::new$"] = lambda e, a, f: [(sx.TRUE, "ret", Agg("set", []), "")]
    ex.extra_models[r"^Vec::<.*>::new$"] = lambda e, a, f: [(sx.TRUE, "ret", VecVal([]), "")]
    try:
        outs = ex.call(sn, [Int(sx.const(0), "u8"), Ref(store2, "cfg"), Int(BL, "u64")])
        rets = [o for o in outs if o.kind == "ret"]
        pre2 = [sx.ge(T, sx.const(1)), sx.ge(K, sx.const(1)), sx.le(K, sx.const(56403)), sx.eq(BL, sx.mul(K, T))]
        wrong = [sx.and_(o.cond, sx.not_(sx.and_(sx.eq(o.value.fields[4].t, K), sx.eq(o.value.fields[1].t, T)))) for o in rets]
        discharge(ctx, "c05/E2/SourceBlockDecoder::new-holds-K=block_length/T-symbols[%s]" % tag, pre2 + [sx.or_(*wrong + [x.cond for x in outs if x.kind == "panic"])],
                  ["T", "K", "BL"], replay=lambda m: {"inputs": {k: m.get(k) for k in ("T", "K", "BL")}, "reproduced_in": ["MIR of current source"]}, key_of=lambda r: "sbd-new", kind="decoder-new")
    except Exception as e:
        rep.inconclusive("c05/E2/SourceBlockDecoder::new[%s]" % tag, "executor: %s" % str(e)[:300])
    rep.functions = sorted(set(rep.functions) | ex.functions_executed)


def run(ctx):
    rep = ctx.report
    thorough = ctx.tier == "thorough"
    ZB = 8 if thorough else 5
    shapes = SHAPES + (SHAPES_THOROUGH if thorough else [])
    rep.functions = ["base::partition", "util::int_div_ceil", "encoder::calculate_block_offsets", "encoder::SourceBlockEncoder::create_symbols",
                     "decoder::SourceBlockDecoder::{new,unpack_sub_blocks}", "decoder::Decoder::new", "encoder::Encoder::{new,get_encoded_packets} (concrete)"]
    rep.bounds = {"partition": "I: u32, J: u32 >= 1 over their whole types (E2)",
                  "calculate_block_offsets / Decoder::new / SourceBlockDecoder::new": "E2: F: u64 <= 942574504275, T: u16 >= 1 symbolic over their whole ranges, Z symbolic in 1..=%d (loop bound), valid configurations (Z <= ceil(F/T), <= 56403 symbols per block)" % ZB,
                  "create_symbols / unpack_sub_blocks": "shapes (K,T,N,Al) = %s, data symbolic" % shapes,
                  "objects": "concrete: F not a multiple of T, Z in 1..5, N in 1..4, Al in {1,2,4,8}"}
    rep.assumptions = ["RFC layout written independently in each harness (rfc_symbol_byte) and in props/c05.py (rfc_layout)",
                       "zero padding of the last block inside Encoder::new and packet numbering are observed on concrete objects only"]
    rep.outside = ["Encoder::new / Decoder::decode end to end with symbolic data (52 GB / no verdict, DESIGN §1)", "sizes above the bounds"]
    native = Native(ctx.scratch.path)
    ths = []

    def kani_part():
        ov = Overlay(ctx.scratch.path, "ov_c05_std", std=True, debug_assertions=True)
        hs = []
        for i, (k, t, n, al) in enumerate(shapes):
            tag = "k%dt%dn%dal%d" % (k, t, n, al)
            sub = {"@K@": str(k), "@T@": str(t), "@N@": str(n), "@AL@": str(al), "@TAG@": tag, "@UNWIND@": str(k * t + 3)}
            ov.append_file("encoder.rs", "c05_layout.rs", dict(sub, **{"@FILE@": "encoder.rs", "@IS_ENCODER@": "kani"}))
            hs.append("c05_create_symbols_%s" % tag)
        run_harnesses(ctx, ov, hs, timeout_s=900, mem_gb=14, replay_kind="layout", prefix="c05/", jobs=8)

    def kani_part_dec():
        ov = Overlay(ctx.scratch.path, "ov_c05_nostd", std=False, debug_assertions=True)
        hs = []
        for i, (k, t, n, al) in enumerate(shapes):
            tag = "k%dt%dn%dal%d" % (k, t, n, al)
            sub = {"@K@": str(k), "@T@": str(t), "@N@": str(n), "@AL@": str(al), "@TAG@": tag, "@UNWIND@": str(k * t + 3)}
            ov.append_file("decoder.rs", "c05_layout.rs", dict(sub, **{"@FILE@": "decoder.rs", "@IS_ENCODER@": "any()"}))
            hs.append("c05_unpack_sub_blocks_%s" % tag)
        run_harnesses(ctx, ov, hs, timeout_s=900, mem_gb=14, replay_kind="layout", prefix="c05/", jobs=6)
    for f in (kani_part, kani_part_dec):
        th = threading.Thread(target=f)
        th.start()
        ths.append(th)
    # ---- E2: partition
    for oc in (True, False):
        sx.reset()
        tag = "overflow-checks=%s" % ("on" if oc else "off")
        mir = Mir(dump_mir(ctx.scratch.path, overflow_checks=oc))
        ex = Exec(mir)
        I, J = sx.var("I", 32), sx.var("J", 32)
        outs = ex.call("partition", [Int(I, "u32"), Int(J, "u32")])
        rets = [o for o in outs if o.kind == "ret"]
        bad = [o for o in outs if o.kind != "ret"]
        pre = sx.ge(J, sx.const(1))
        viol = []
        for o in rets:
            il, is_, jl, js = [f.t for f in o.value.fields]
            ok = sx.and_(sx.le(sx.mul(is_, J), I), sx.lt(I, sx.mul(sx.add(is_, sx.const(1)), J)),        # IS = floor(I/J)
                         sx.ge(sx.mul(il, J), I), sx.or_(sx.eq(il, sx.const(0)), sx.lt(sx.mul(sx.sub(il, sx.const(1)), J), I)),   # IL = ceil(I/J)
                         sx.eq(sx.add(sx.mul(jl, il), sx.mul(js, is_)), I), sx.eq(sx.add(jl, js), J),
                         sx.le(is_, il), sx.le(sx.sub(il, is_), sx.const(1)))
            viol.append(sx.and_(o.cond, sx.not_(ok)))

        def rp(m):
            i, j = m.get("I", 0), m.get("J", 1)
            return {"inputs": {"I": i, "J": j}, "reproduced_in": ["MIR of current source (partition is pub: raptorq::partition(%d,%d))" % (i, j)]}
        discharge(ctx, "c05/partition=(ceil,floor,JL,JS)-of-RFC-4.4.1.2[%s]" % tag, [pre, sx.or_(*viol)], ["I", "J"], replay=rp, key_of=lambda r: "partition-wrong", kind="partition")
        discharge(ctx, "c05/partition-never-panics-for-J>=1[%s]" % tag, [pre, sx.or_(*[o.cond for o in bad])] if bad else [sx.FALSE], ["I", "J"], replay=rp, key_of=lambda r: "partition-panics", kind="partition")
        discharge(ctx, "c05/partition-witness[%s]" % tag, [pre, sx.or_(*[o.cond for o in rets]), sx.gt(I, sx.const(1000)), sx.gt(J, sx.const(7)), sx.gt(sx.rem(I, J), sx.const(0))], ["I", "J"], expect="sat")
        rep.functions = sorted(set(rep.functions) | ex.functions_executed)
        rep.stubs = sorted(set(rep.stubs) | ex.models_used)
        offsets_and_decoder_new(ctx, mir, tag, ZB)
    # ---- concrete objects
    t0 = time.time()
    cases = [(1, 1, 1, 1, 1), (10, 4, 1, 1, 1), (100, 8, 3, 2, 2), (101, 8, 3, 2, 1), (999, 24, 5, 3, 8), (250, 12, 4, 4, 1), (77, 16, 2, 2, 4), (1000, 40, 2, 5, 8),
             (1003, 40, 3, 2, 8), (500, 24, 2, 2, 8), (333, 20, 2, 3, 4), (90, 6, 4, 2, 2)]   # N does not divide T/Al with Al > 1
    n = 0
    for F, T, Z, N, Al in cases:
        out = native.run(["object-packets", F, T, Z, N, Al, 2], release=False)
        name = "c05/object/F=%d,T=%d,Z=%d,N=%d,Al=%d" % (F, T, Z, N, Al)
        obj = {"kind": "object-packets", "args": [F, T, Z, N, Al, 2]}
        if not out.startswith("object"):
            rep.violated(name, "object layout", "Encoder::new failed on a valid configuration: %s" % out[:200], obj, 0.0, "native")
            continue
        data = bytes(((i * 53 + 11) ^ (i >> 3)) & 0xFF for i in range(F))
        want = rfc_layout(F, T, Z, N, Al, data)
        lines = out.splitlines()
        pk = [x.split(":") for x in lines[0].split("object ")[1].split(",")]
        src = [(int(b), int(e), bytes.fromhex(h)) for b, e, h in pk]
        # expected order: per block, K source packets (ESI 0..K-1) then 2 repair packets (ESI K, K+1)
        exp_ids = []
        for b in range(Z):
            K = len([1 for (bb, m, s) in want if bb == b])
            exp_ids += [(b, e) for e in range(K + 2)]
        got_ids = [(b, e) for b, e, _ in src]
        problems = []
        if got_ids != exp_ids:
            problems.append("packet numbering %s... differs from block-by-block (ESI 0..K-1, then K, K+1)" % got_ids[:6])
        wd = {(b, m): s for b, m, s in want}
        for b, e, payload in src:
            if len(payload) != T:
                problems.append("payload of (%d,%d) has %d bytes, T=%d" % (b, e, len(payload), T))
            if (b, e) in wd and payload != wd[(b, e)]:
                problems.append("source packet (%d,%d) = %s, RFC layout gives %s" % (b, e, payload.hex(), wd[(b, e)].hex()))
        dec = lines[1].split("DECODED ")[1] if len(lines) > 1 else ""
        if dec != data.hex():
            problems.append("decoder does not invert the layout: got %s..." % dec[:40])
        n += 1
        if problems:
            rep.violated(name, "object layout", "; ".join(problems[:3]), obj, 0.0, "native")
    rep.held("c05/object/%d-objects-layout,padding,numbering" % n, "independent RFC layout computation agrees", time.time() - t0, "native/concrete", objects=n)
    for th in ths:
        th.join()


def replay(path):
    import json
    from vlib.common import Scratch
    obj = json.load(open(path))
    if obj.get("kind") == "object-packets":
        print(Native(Scratch("replay").path).run(["object-packets"] + obj["args"])[:3000])
    else:
        print(json.dumps(obj, indent=1)[:3000])
    return 0
