"""C14 — derived transmission parameters are those of RFC 6330 §4.3.
Engine E2, modular (DESIGN §4 C14): O1 int_div_ceil; O2 the `kl` closure against KL(n) over the real
table; O2b lemmas about KL; O3 generate_encoding_parameters with kl under contract; O4 monotonicity."""
import re

from vlib import rfc, sx
from vlib.mir import dump_mir, Mir, Exec, Int, Agg, Ref
from vlib.native import Native, Replay
from vlib.smtprop import discharge, find_fn

U32 = 1 << 32


def kl_spec_rows(q, val, infeasible):
    """'val = max{K' in Table 2 : K' <= q}' in row-interval form; `infeasible` when q < smallest K'."""
    tb = [r[0] for r in rfc.TABLE2]
    cases = [sx.and_(sx.lt(q, sx.const(tb[0])), infeasible)]
    for i, k in enumerate(tb):
        hi = sx.lt(q, sx.const(tb[i + 1])) if i + 1 < len(tb) else sx.TRUE
        cases.append(sx.and_(sx.le(sx.const(k), q), hi, sx.not_(infeasible), sx.eq(val, sx.const(k))))
    return sx.or_(*cases)


def kl_chain(q):
    """KL as an ite chain over the pinned table (0 when nothing fits)."""
    t = sx.const(0)
    for k in [r[0] for r in rfc.TABLE2]:
        t = sx.ite(sx.le(sx.const(k), q), sx.const(k), t)
    return t


def caller_pre(T, Al, n):
    """What generate_encoding_parameters can pass to kl: (Al=8, 8|T, T>=64, 1<=n<=T/64) or (Al=1, 1<=T<=63, 1<=n<=T)."""
    a8 = sx.and_(sx.eq(Al, sx.const(8)), sx.eq(sx.rem(T, sx.const(8)), sx.const(0)), sx.ge(T, sx.const(64)),
                 sx.le(sx.const(1), n), sx.le(sx.mul(n, sx.const(64)), T))
    a1 = sx.and_(sx.eq(Al, sx.const(1)), sx.le(sx.const(1), T), sx.le(T, sx.const(63)), sx.le(sx.const(1), n), sx.le(n, T))
    return sx.or_(a8, a1)


def run(ctx):
    rep = ctx.report
    thorough = ctx.tier == "thorough"
    NB = 16 if thorough else 4
    rep.bounds = {"F": "u64 symbolic (the property's 'valid configuration exists' is an assumption of O3)",
                  "max packet size P'": "O2: symbol size symbolic over everything the caller can pass; O3/O4: every P' in 1..=%d enumerated (one symbolic execution per distinct (Al,T))" % (64 * NB + 63), "memory budget WS": "u64 symbolic",
                  "loop over n": "exact per P' (N_max <= %d inside the enumerated range)" % NB,
                  "Table 2 scan in kl": "all 477 rows unrolled"}
    rep.assumptions = ["modular proof: O3/O4 use `kl(n) = KLfun(q(n))` with KLfun uninterpreted + the lemmas of O2b; O2 shows the real "
                       "closure equals KL for every argument the caller can pass; the composition is an argument on paper",
                       "oracle: RFC 6330 §4.3 written in unbounded integers in the check (Kt=ceil(F/T), N_max=floor(T/(SS*Al)), "
                       "KL(n)=max{K'<=WS/(Al*ceil(T/(Al*n)))}, Z=ceil(Kt/KL(N_max)), N=min{n: ceil(Kt/Z)<=KL(n)})",
                       "SS=8 for P'>=64 else 1; Al=8 for P'>=64 else 1 (the crate's documented choice, part of the spec here)"]
    native = Native(ctx.scratch.path)
    replay = Replay(ctx.scratch.path)

    def replay_derive(model, names=("F", "P", "WS")):
        F, P, WS = [model.get(n, 0) for n in names]
        if P == 0:
            return None
        res = native.both(["derive", F, P, WS])
        pub = None
        if F <= (1 << 16):
            pub = replay.both(["derive", F, P, WS])
        exp = py_derive(F, P, WS)
        bad = []
        for k, v in res.items():
            if exp is None:
                continue
            if v.startswith("panic") or v.split()[1:] != [str(x) for x in exp]:
                bad.append(k)
        return {"inputs": {"F": F, "P": P, "WS": WS}, "rfc_derivation": exp, "native_hooked": res,
                "native_public_EncoderBuilder": pub, "reproduced_in": bad}

    for oc in (True, False):
        sx.reset()
        tag = "overflow-checks=%s" % ("on" if oc else "off")
        mir = Mir(dump_mir(ctx.scratch.path, overflow_checks=oc))
        gen = find_fn(mir, r"::generate_encoding_parameters$", ["u64", "u16", "u64"])
        klfn = find_fn(mir, r"::generate_encoding_parameters::\{closure#0\}$")
        # ---------------- O1: int_div_ceil
        ex = Exec(mir)
        n_, d_ = sx.var("n", 64), sx.var("d", 64)
        outs = ex.call("int_div_ceil", [Int(n_, "u64"), Int(d_, "u64")])
        rets = [o for o in outs if o.kind == "ret"]
        panics = [o for o in outs if o.kind != "ret"]
        ret_c = sx.or_(*[o.cond for o in rets])
        val = rets[-1].value.t
        for o in reversed(rets[:-1]):
            val = sx.ite(o.cond, o.value.t, val)
        fits = sx.le(n_, sx.mul(sx.const(U32 - 1), d_))           # ceil(n/d) < 2^32
        good = sx.and_(sx.ge(sx.mul(val, d_), n_), sx.or_(sx.eq(val, sx.const(0)), sx.lt(sx.mul(sx.sub(val, sx.const(1)), d_), n_)))
        discharge(ctx, "c14/O1/int_div_ceil=ceil-when-it-fits-u32[%s]" % tag,
                  [sx.gt(d_, sx.const(0)), fits, sx.or_(sx.not_(ret_c), sx.not_(good))], ["n", "d"],
                  replay=lambda m: None, kind="int_div_ceil")
        discharge(ctx, "c14/O1/int_div_ceil-panics-only-on-zero-divisor[%s]" % tag,
                  [sx.gt(d_, sx.const(0)), sx.or_(*[o.cond for o in panics])] if panics else [sx.FALSE], ["n", "d"],
                  replay=lambda m: None, kind="int_div_ceil")
        rep.functions = sorted(set(rep.functions) | ex.functions_executed)
        # ---------------- O2: the kl closure == KL(n) for every argument its caller can pass
        ex = Exec(mir)
        T, Al, WS, n = sx.var("T", 16), sx.var("Al", 16), sx.var("WS", 64), sx.var("n", 32)
        store = {"T": Int(T, "u16"), "Al": Int(Al, "u16"), "WS": Int(WS, "u64")}
        env = Agg("closure", [Ref(store, "T"), Ref(store, "Al"), Ref(store, "WS")])
        envref_store = {"env": env}
        outs = ex.call(klfn, [Ref(envref_store, "env"), Int(n, "u32")])
        rets = [o for o in outs if o.kind == "ret"]
        bad = [o for o in outs if o.kind != "ret"]
        pre = caller_pre(T, Al, n)
        x = sx.ceil_div(T, sx.mul(Al, n))
        q = sx.div(WS, sx.mul(Al, x))
        # "a valid configuration exists" at unit level: the caller's N_max is feasible
        Nmx = sx.ite(sx.eq(Al, sx.const(8)), sx.div(T, sx.const(64)), T)
        qmax = sx.div(WS, sx.mul(Al, sx.ceil_div(T, sx.mul(Al, Nmx))))
        feasible = sx.ge(qmax, sx.const(10))
        ret_c = sx.or_(*[o.cond for o in rets])
        val = rets[-1].value.t
        for o in reversed(rets[:-1]):
            val = sx.ite(o.cond, o.value.t, val)
        # an infeasible n is signalled by returning 0 (nothing fits); a panic is never acceptable
        infeasible = sx.and_(ret_c, sx.eq(val, sx.const(0)))
        spec = kl_spec_rows(q, val, infeasible)

        def replay_kl(model):
            # lift the unit counterexample to the public entry point: P' = T; F chosen so that kl(n) is reached
            t, ws = model.get("T"), model.get("WS")
            best = None
            for F in (t * 10, t * 11, t * 1000, t * 56403, 1):
                r = replay_derive({"F": F, "P": t, "WS": ws})
                if r and r["reproduced_in"]:
                    return r
                best = best or r
            return best
        panic_c = sx.or_(*[o.cond for o in bad]) if bad else sx.FALSE
        v1, _ = discharge(ctx, "c14/O2/kl(N_max)=KL(N_max),no-panic[%s]" % tag,
                          [pre, feasible, sx.eq(n, Nmx), sx.or_(panic_c, sx.and_(ret_c, sx.not_(spec)))],
                          ["T", "Al", "WS", "n"], replay=replay_kl, key_of=lambda r: "kl(N_max)", kind="derive")
        v2, _ = discharge(ctx, "c14/O2/kl(n)-never-panics-when-N_max-is-feasible[%s]" % tag, [pre, feasible, panic_c],
                          ["T", "Al", "WS", "n"], replay=replay_kl, key_of=lambda r: "kl(n)-panics", kind="derive")
        if v1 == "unsat" and v2 == "unsat":
            discharge(ctx, "c14/O2/kl(n)=KL(n)-for-every-n<=N_max[%s]" % tag, [pre, feasible, ret_c, sx.not_(spec)],
                      ["T", "Al", "WS", "n"], replay=replay_kl, key_of=lambda r: "kl(n)-wrong-value", kind="derive")
        discharge(ctx, "c14/O2/witness[%s]" % tag, [pre, feasible, ret_c, spec, sx.gt(val, sx.const(10))], ["T", "Al", "WS", "n"], expect="sat")
        rep.functions = sorted(set(rep.functions) | ex.functions_executed)
        rep.stubs = sorted(set(rep.stubs) | ex.models_used)
        # ---------------- O3/O4: generate_encoding_parameters with kl under contract, one symbolic execution
        # per packet size P' (concrete), F and WS symbolic over u64.  (The monolithic query with P' symbolic
        # is not decided by either solver, DESIGN §1; with P' concrete T, Al, N_max and every divisor that
        # depends on n are constants and the loop bound is exact.)
        import concurrent.futures as cf
        import time as _t
        pmax = 64 * NB + 63
        Ffull, WS, WS2 = sx.var("F", 64), sx.var("WS", 64), sx.var("WS2", 64)
        names = ["F", "WS"]

        def klfun(qt):
            return sx.uf("KLfun", qt, 32)

        def contract(exe, target, cargs):
            envv, nn = cargs
            e = envv.store[envv.key] if isinstance(envv, Ref) else envv
            Tv, Alv, WSv = [r.store[r.key] for r in e.fields[:3]]
            xx = sx.ceil_div(Tv.t, sx.mul(Alv.t, nn.t))
            return [(sx.TRUE, "ret", Int(klfun(sx.div(WSv.t, sx.mul(Alv.t, xx))), "u32"), "")]

        def lemmas_for(apps_qs):
            ls = []
            for a_, q_ in apps_qs:
                ls += [sx.or_(sx.eq(a_, sx.const(0)), sx.and_(sx.le(sx.const(10), a_), sx.le(a_, q_))), sx.le(a_, sx.const(56403)),
                       sx.implies(sx.ge(q_, sx.const(10)), sx.ge(a_, sx.const(10)))]
            for i, (a1, q1) in enumerate(apps_qs):
                for k, (a2, q2) in enumerate(apps_qs):
                    if i != k:
                        ls.append(sx.implies(sx.le(q1, q2), sx.le(a1, a2)))
            return ls

        def build_case(Pv, klf):
            """One symbolic execution for packet size Pv with kl(n) := klf(q(n)). Returns the O3 script."""
            Al = 8 if Pv >= 64 else 1
            Tv = Pv - Pv % Al
            Nmax = Tv // (Al * Al)
            F = sx.intvar("F", 0, 255 * 56403 * Tv)

            def contract2(exe, target, cargs):
                envv, nn = cargs
                e = envv.store[envv.key] if isinstance(envv, Ref) else envv
                Tq, Alq, WSq = [r.store[r.key] for r in e.fields[:3]]
                xx = sx.ceil_div(Tq.t, sx.mul(Alq.t, nn.t))
                return [(sx.TRUE, "ret", Int(klf(sx.div(WSq.t, sx.mul(Alq.t, xx))), "u32"), "")]
            ex2 = Exec(mir, loop_bound=Nmax + 2)
            ex2.closure_contract = contract2
            outs = ex2.call(gen, [Int(F, "u64"), Int(sx.const(Pv), "u16"), Int(WS, "u64")])
            rets = [o for o in outs if o.kind == "ret"]
            bad = [o for o in outs if o.kind != "ret"]
            qof = lambda n_, ws: sx.div(ws, sx.const(Al * -(-Tv // (Al * n_))))
            KLr = lambda n_: klf(qof(n_, WS))
            Ktr = sx.ceil_div(F, sx.const(Tv))
            Zr = sx.ceil_div(Ktr, KLr(Nmax))
            need = sx.ceil_div(Ktr, Zr)
            valid = sx.and_(sx.ge(F, sx.const(1)), sx.ge(KLr(Nmax), sx.const(10)), sx.le(Zr, sx.const(255)))
            wrong = []
            for o in rets:
                f = o.value.fields
                n_ok = sx.FALSE
                for i in range(1, Nmax + 1):
                    earlier = sx.and_(*[sx.gt(need, KLr(m)) for m in range(1, i)])
                    n_ok = sx.or_(n_ok, sx.and_(sx.eq(f[3].t, sx.const(i)), sx.le(need, KLr(i)), earlier))
                okv = sx.and_(sx.eq(f[0].t, F), sx.eq(f[1].t, sx.const(Tv)), sx.eq(f[4].t, sx.const(Al)), sx.eq(f[2].t, Zr), n_ok)
                wrong.append(sx.and_(o.cond, sx.not_(okv)))
            return sx.IntPrinter().script([valid, sx.or_(*([o.cond for o in bad] + wrong))], names)

        seen, jobs = {}, []
        for Pv in list(range(1, NB + 1)) + list(range(64, pmax + 1)):
            Al = 8 if Pv >= 64 else 1
            Tv = Pv - Pv % Al
            if (Al, Tv) in seen:
                seen[(Al, Tv)].append(Pv)
                continue
            seen[(Al, Tv)] = [Pv]
            Nmax = Tv // (Al * Al)
            # Lemma A (own query, F over all of u64): a valid configuration implies F <= 255*56403*T.  The main
            # execution then runs with F ranged accordingly, so that the interval simplifier can drop the u32
            # narrowing of ceil(F/T) (the narrowing itself is what C19/C14 defects were about: it is checked, not assumed)
            F = sx.intvar("F", 0, 255 * 56403 * Tv)
            ex = Exec(mir, loop_bound=Nmax + 2)
            ex.closure_contract = contract
            outs = ex.call(gen, [Int(F, "u64"), Int(sx.const(Pv), "u16"), Int(WS, "u64")])
            rets = [o for o in outs if o.kind == "ret"]
            bad = [o for o in outs if o.kind != "ret"]
            qof = lambda n_, ws: sx.div(ws, sx.const(Al * -(-Tv // (Al * n_))))
            KLr = lambda n_: klfun(qof(n_, WS))
            Ktr = sx.ceil_div(F, sx.const(Tv))
            Zr = sx.ceil_div(Ktr, KLr(Nmax))
            need = sx.ceil_div(Ktr, Zr)
            valid = sx.and_(sx.ge(F, sx.const(1)), sx.ge(KLr(Nmax), sx.const(10)), sx.le(Zr, sx.const(255)))
            lem = lemmas_for([(KLr(i), qof(i, WS)) for i in range(1, Nmax + 1)])
            wrong = []
            for o in rets:
                f = o.value.fields
                n_ok = sx.FALSE
                for i in range(1, Nmax + 1):
                    earlier = sx.and_(*[sx.gt(need, KLr(m)) for m in range(1, i)])
                    n_ok = sx.or_(n_ok, sx.and_(sx.eq(f[3].t, sx.const(i)), sx.le(need, KLr(i)), earlier))
                okv = sx.and_(sx.eq(f[0].t, F), sx.eq(f[1].t, sx.const(Tv)), sx.eq(f[4].t, sx.const(Al)), sx.eq(f[2].t, Zr), n_ok)
                wrong.append(sx.and_(o.cond, sx.not_(okv)))
            KtF = sx.ceil_div(Ffull, sx.const(Tv))
            validF = sx.and_(sx.ge(Ffull, sx.const(1)), sx.ge(KLr(Nmax), sx.const(10)), sx.le(sx.ceil_div(KtF, KLr(Nmax)), sx.const(255)))
            qa = sx.IntPrinter().script([validF] + lem + [sx.gt(Ffull, sx.const(255 * 56403 * Tv))], names)
            q3 = sx.IntPrinter().script([valid] + lem + [sx.or_(*([o.cond for o in bad] + wrong))], names)
            # O4 on the code's own Z for two budgets (second execution with WS2)
            outs2 = ex.call(gen, [Int(F, "u64"), Int(sx.const(Pv), "u16"), Int(WS2, "u64")])
            z1 = [(o.cond, o.value.fields[2].t) for o in rets]
            z2 = [(o.cond, o.value.fields[2].t) for o in outs2 if o.kind == "ret"]
            KL2 = klfun(qof(Nmax, WS2))
            valid2 = sx.and_(sx.ge(KL2, sx.const(10)), sx.le(sx.ceil_div(Ktr, KL2), sx.const(255)))
            lem2 = lemmas_for([(KLr(Nmax), qof(Nmax, WS)), (KL2, qof(Nmax, WS2))]) + \
                lemmas_for([(klfun(qof(i, WS2)), qof(i, WS2)) for i in range(1, Nmax + 1)])
            more = sx.or_(*[sx.and_(c1, c2, sx.gt(b, a)) for c1, a in z1 for c2, b in z2])
            q4 = sx.IntPrinter().script([valid, valid2, sx.le(WS, WS2)] + lem + lem2 + [more], ["F", "WS", "WS2"])
            wit = sx.IntPrinter().script([valid] + lem + [sx.or_(*[o.cond for o in rets]), sx.ge(Zr, sx.const(2))], names) if Tv in (1, 64) else None
            jobs.append((Al, Tv, Pv, q3, q4, wit, qa))
            import os as _os
            if _os.environ.get("VERIF_DUMP_SMT"):
                open(_os.path.join(_os.environ["VERIF_DUMP_SMT"], "o3_al%d_t%d_%s.smt2" % (Al, Tv, "on" if oc else "off")), "w").write(q3)
                open(_os.path.join(_os.environ["VERIF_DUMP_SMT"], "o4_al%d_t%d_%s.smt2" % (Al, Tv, "on" if oc else "off")), "w").write(q4)
                open(_os.path.join(_os.environ["VERIF_DUMP_SMT"], "oa_al%d_t%d_%s.smt2" % (Al, Tv, "on" if oc else "off")), "w").write(qa)
            rep.functions = sorted(set(rep.functions) | ex.functions_executed)
            rep.stubs = sorted(set(rep.stubs) | ex.models_used)
        tmo = 60 if not thorough else 600
        if _os.environ.get("VERIF_DUMP_SMT"):
            return

        def work(job):
            Al, Tv, Pv, q3, q4, wit, qa = job
            return job, sx.portfolio(q3, tmo, ("z3", "cvc5"), grace_s=0.1), sx.portfolio(q4, tmo, ("z3", "cvc5"), grace_s=0.1), \
                (sx.portfolio(wit, tmo, ("z3",), grace_s=0) if wit else None), sx.portfolio(qa, tmo, ("z3", "cvc5"), grace_s=0.1)
        t0 = _t.time()
        with cf.ThreadPoolExecutor(max(1, ctx.jobs // 2)) as pool:
            results = list(pool.map(work, jobs))
        ok3 = ok4 = 0
        okA = 0
        for (Al, Tv, Pv, q3, q4, wit, qa), r3, r4, rw, ra in results:
            if ra[0] == "unsat":
                okA += 1
            else:
                rep.inconclusive("c14/O3/lemmaA/valid=>F<=255*56403*T/T=%d[%s]" % (Tv, tag), "%s (the ranged execution of O3/O4 for this T rests on it)" % ra[0],
                                 max(r.time_s for r in ra[1]), "smt")
            for what, (verdict, rs) in (("O3/derived=(T,Z,N,Al)-of-RFC-4.3,no-panic", r3), ("O4/larger-budget-never-more-blocks", r4)):
                name = "c14/%s/P'=%d..%d(T=%d,Al=%d)[%s]" % (what, seen[(Al, Tv)][0], seen[(Al, Tv)][-1], Tv, Al, tag)
                secs = max(r.time_s for r in rs)
                if verdict == "unsat":
                    if what.startswith("O3"):
                        ok3 += 1
                    else:
                        ok4 += 1
                    continue
                if verdict != "sat":
                    rep.inconclusive(name, "%s: %s" % (verdict, [(r.solver, r.status) for r in rs]), secs, "smt")
                    continue
                model = next(r.model for r in rs if r.status == "sat")
                model["P"] = Pv
                if what.startswith("O3"):
                    r = replay_derive(model)
                else:
                    a, b = replay_derive(model), replay_derive({"F": model.get("F"), "P": Pv, "WS": model.get("WS2")})
                    za = (a or {}).get("native_hooked", {}).get("release", "").split()
                    zb = (b or {}).get("native_hooked", {}).get("release", "").split()
                    r = {"inputs": {"F": model.get("F"), "P": Pv, "WS": model.get("WS"), "WS2": model.get("WS2")}, "Z_small_budget": za, "Z_large_budget": zb,
                         "reproduced_in": ["release"] if len(za) > 3 and len(zb) > 3 and int(zb[3]) > int(za[3]) else []}
                if what.startswith("O3") and not (r and r["reproduced_in"]):
                    # the abstract model (KLfun uninterpreted) is not a real input: refine with KL over the concrete table
                    v2, rs2 = sx.portfolio(build_case(Pv, kl_chain), 180 if not thorough else 900, ("z3", "cvc5"), grace_s=0.1)
                    secs += max(x.time_s for x in rs2)
                    if v2 == "unsat":
                        rep.held(name, "abstract query had a spurious model; proved with KL defined over the concrete Table 2", secs, "smt/refined")
                        ok3 += 0
                        continue
                    if v2 == "sat":
                        model = next(x.model for x in rs2 if x.status == "sat")
                        model["P"] = Pv
                        r = replay_derive(model)
                    else:
                        rep.inconclusive(name, "abstract model does not reproduce and the refined query (concrete table) gave %s" % v2, secs, "smt/refined")
                        continue
                if r and r["reproduced_in"]:
                    rep.violated(name, "derive P'=%d" % Pv,
                                 "%s fails natively: %s" % (what, {k: r[k] for k in r if k != "native_public_EncoderBuilder"}),
                                 {"kind": "derive", "replay": r, "model": {k: model.get(k) for k in ("F", "P", "WS", "WS2")}}, secs, "smt")
                else:
                    rep.inconclusive(name, "model %s does not reproduce natively: %s" % ({k: model.get(k) for k in ("F", "P", "WS", "WS2")}, r), secs, "smt")
            if rw is not None:
                v, rs = rw
                if v == "sat":
                    rep.held("c14/O3/witness/T=%d[%s]" % (Tv, tag), "valid configuration with Z >= 2 exists", rs[0].time_s, "smt/z3")
                else:
                    rep.inconclusive("c14/O3/witness/T=%d[%s]" % (Tv, tag), "witness %s: O3 would be vacuous" % v, rs[0].time_s, "smt/z3")
        dt = _t.time() - t0
        if okA == len(jobs):
            rep.held("c14/O3/lemmaA/valid=>F<=255*56403*T/all-P'<=%d[%s]" % (pmax, tag), "F over all of u64", dt / 3, "smt/z3+cvc5", cases=len(jobs))
        if ok3 == len(jobs):
            rep.held("c14/O3/derived=(T,Z,N,Al)-of-RFC-4.3,no-panic/all-P'<=%d[%s]" % (pmax, tag), "%d distinct (Al,T) executions, F and WS symbolic" % len(jobs), dt / 2, "smt/z3+cvc5", cases=len(jobs))
        if ok4 == len(jobs):
            rep.held("c14/O4/larger-budget-never-more-blocks/all-P'<=%d[%s]" % (pmax, tag), "%d distinct (Al,T) executions, F, WS, WS2 symbolic" % len(jobs), dt / 2, "smt/z3+cvc5", cases=len(jobs))
        rep.coverage["smt_queries"] = rep.coverage.get("smt_queries", 0) + 2 * len(jobs)
    # ---------------- O2b: the lemmas used for KLfun hold for KL over the (pinned = current, see C15) table
    sx.reset()
    qa, qb = sx.intvar("qa", 0, (1 << 64) - 1), sx.intvar("qb", 0, (1 << 64) - 1)
    ka, kb = kl_chain(qa), kl_chain(qb)
    discharge(ctx, "c14/O2b/KL<=q-or-0,>=10-iff-q>=10,<=56403", [sx.not_(sx.and_(
        sx.or_(sx.eq(ka, sx.const(0)), sx.and_(sx.le(sx.const(10), ka), sx.le(ka, qa))), sx.le(ka, sx.const(56403)),
        sx.implies(sx.ge(qa, sx.const(10)), sx.ge(ka, sx.const(10)))))], ["qa"], replay=lambda m: None)
    discharge(ctx, "c14/O2b/KL-monotone", [sx.le(qa, qb), sx.gt(ka, kb)], ["qa", "qb"], replay=lambda m: None)
    rep.outside = ["O3/O4 for packet sizes P' > %d (N_max > %d)" % (64 * NB + 63, NB), "the round-trip clause of C14 (covered by C01/C05)",
                   "transfer lengths for which no valid configuration exists (the derivation is then unspecified)"]


def py_derive(F, P, WS):
    """RFC 4.3 derivation in Python integers; None when no valid configuration exists."""
    if P == 0 or F == 0:
        return None
    Al = 8 if P >= 64 else 1
    SS = Al
    T = P - P % Al
    Kt = -(-F // T)
    Nmax = T // (SS * Al)
    tb = [r[0] for r in rfc.TABLE2]

    def KL(n):
        q = WS // (Al * -(-T // (Al * n)))
        c = [k for k in tb if k <= q]
        return c[-1] if c else 0
    if KL(Nmax) < 10:
        return None
    Z = -(-Kt // KL(Nmax))
    if Z > 255:
        return None
    need = -(-Kt // Z)
    N = next(n for n in range(1, Nmax + 1) if need <= KL(n))
    return [F, T, Z, N, Al]


def replay(path):
    import json
    from vlib.common import Scratch
    obj = json.load(open(path))
    sc = Scratch("replay")
    i = obj["replay"]["inputs"]
    print(json.dumps({"inputs": i, "rfc": py_derive(i["F"], i["P"], i["WS"]),
                      "native": Native(sc.path).both(["derive", i["F"], i["P"], i["WS"]])}, indent=1))
    return 0
