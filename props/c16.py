"""C16 — dense and sparse binary matrices implement the same abstract matrix.  DENSE HALF ONLY (the
sparse representation is not applicable, see MANIFEST/DESIGN): one interface operation from an arbitrary
representable state, compared cell by cell with the abstract operation; operation sequences of any length
follow by induction on the representation invariant (every word pattern of the right length is a valid state)."""
import threading

from vlib.kani import Overlay
from vlib.kaniprop import run_harnesses

OPS = ["get_and_dims", "new_is_zero", "set", "swap_rows", "swap_columns", "add_assign_rows", "resize", "count_ones", "row_iter", "ones_in_column"]


CHEAP = ["get_and_dims", "new_is_zero", "set", "swap_rows", "resize"]
ALL = CHEAP + ["swap_columns", "add_assign_rows", "count_ones", "row_iter"]


def shapes(tier):
    # (H, W, extra words, operations): widths across one and two 64-bit word boundaries, and exactly on a boundary.
    # The loop-heavy operations cost CBMC minutes per 64 columns, so the widest shape gets the cheap ones in quick.
    s = [(3, 66, 0, ALL), (2, 64, 1, CHEAP + ["count_ones", "row_iter"]), (3, 130, 0, CHEAP)]
    if tier == "thorough":
        s += [(2, 64, 1, ["swap_columns", "add_assign_rows"]), (3, 128, 2, CHEAP),
              (4, 65, 0, ALL), (3, 63, 0, ALL), (3, 2, 0, CHEAP)]
    return s


def run(ctx):
    rep = ctx.report
    rep.functions = ["matrix::DenseBinaryMatrix::{new,set,get,height,width,swap_rows,swap_columns,add_assign_rows,resize,count_ones,get_row_iter,get_ones_in_column,bit_position,row_word_width,select_*mask}",
                     "iterators::OctetIter::{new_dense_binary,next}", "gf2::add_assign_binary", "util::get_both_ranges"]
    rep.bounds = {"shapes": "(height, width, over-allocated words, operations) = %s" % (shapes(ctx.tier),), "state": "all word contents symbolic, incl. unused high bits",
                  "arguments": "all admissible indices/ranges symbolic", "probe": "symbolic cell"}
    rep.assumptions = ["representation invariant used for the induction: elements.len() >= height*ceil(width/64), any contents; new() and resize() re-establish it",
                       "interface preconditions assumed: indices in range, dest != src, swap_columns hint rows have equal values in both columns"]
    rep.outside = ["the SPARSE representation (SparseBinaryMatrix, SparseBinaryVec, column index, dense tail): no CBMC verdict for three sets and two operations in 25 min, and an arbitrary valid symbolic state cannot be constructed within reach (DESIGN §4 C16)",
                   "get_sub_row_as_octets, query_non_zero_columns and get_ones_in_column: their results are Vecs built by symbolic pushes, for which CBMC gave no verdict in 500-800 s",
                   "shapes beyond the listed ones", "hint_column_dense_and_frozen / column acceleration (no-ops for the dense matrix)"]
    ths = []
    for n, (h, w, extra, ops) in enumerate(shapes(ctx.tier)):
        tag = "h%dw%d" % (h, w)
        ov = Overlay(ctx.scratch.path, "ov_c16_%s_%d" % (tag, n), std=True, debug_assertions=True)
        ov.append_file("matrix.rs", "c16_matrix.rs", {"@TAG@": tag, "@H@": str(h), "@W@": str(w), "@EXTRA@": str(extra), "@UNWIND@": str(w + 4)})
        hs = ["c16_%s_%s" % (op, tag) for op in ops]
        th = threading.Thread(target=run_harnesses, args=(ctx, ov, hs), kwargs=dict(timeout_s=900 if ctx.tier == "quick" else 3000, mem_gb=14 if ctx.tier == "quick" else 24, replay_kind="matrix", prefix="c16/", jobs=5))
        th.start()
        ths.append(th)
    for th in ths:
        th.join()
