"""C12 — unsafe code never touches memory outside the buffers it was given.  Engine E1: CBMC's pointer
checks (object bounds, dead/deallocated objects, unaligned raw reads/writes) on exact-size heap operands."""
import threading

from vlib.kani import Overlay
from vlib.kaniprop import run_harnesses
from props import c09, c11

SLAB = ["c09_slab_get_addresses_physical_range", "c09_slab_pair_is_disjoint_and_in_bounds", "c09_slab_pair_same_symbol_panics",
        "c09_slab_out_of_range_panics", "c12_slab_pair_bad_map_panics"]


def run(ctx):
    rep = ctx.report
    thorough = ctx.tier == "thorough"
    c11.describe(rep, ctx.tier)
    rep.functions += ["symbol_slab::SymbolSlab::{get_pair_mut,get,get_mut}", "util::{get_both_ranges,get_both_indices}",
                      "octet::<&Octet as Mul>::mul / Octet::fma (get_unchecked look-ups)"]
    rep.bounds["slab"] = "configurations %s with symbolic indices and permutation" % (c09.slab_configs(ctx.tier),)
    rep.bounds["util"] = "6-element slice, symbolic i, j, len under the documented preconditions"
    rep.assumptions += ["operands are separate exact-size heap objects: a read or write of any byte outside a slice is a CBMC pointer-check failure; "
                        "dest and src are distinct objects, so a write through the wrong pointer is a frame failure in the C11 assertion",
                        "aliasing-model (Stacked/Tree Borrows) violations are not checked by Kani"]
    rep.outside += ["whole encode/decode workloads", "aliasing-model violations"]
    ths = []

    def util_part():
        for da in (True, False):
            ov = Overlay(ctx.scratch.path, "ov_c12_util_da%d" % da, std=True, debug_assertions=da)
            ov.append_file("util.rs", "c12_util.rs")
            ov.append_file("octet.rs", "c10_octet.rs", {"//@RING_LAW_HARNESSES@": ""})
            run_harnesses(ctx, ov, ["c12_get_both_ranges", "c12_get_both_indices", "c10_mul_pairs"], timeout_s=900, replay_kind="util", prefix="c12/", jobs=3)
    ths.append(threading.Thread(target=util_part))
    ths.append(threading.Thread(target=c09.run_slab, args=(ctx, "c12"), kwargs=dict(harnesses=SLAB, jobs=2)))
    for t in ths:
        t.start()
    # memory safety of the kernels does not depend on the scalar: every length of the add/binary kernels, the boundary lengths
    # of the table kernels with one fixed scalar, no scalar slices
    kernels = None if thorough else [k for k in c11.KERNELS if not k.startswith("pub_") or k == "pub_fused_addassign_mul_scalar_binary"]
    c11.run_kernels(ctx, "c12", ctx.tier, kernels=kernels, const_scalars=(0x53,), slices=(), timeout_s=1500 if thorough else 600,
                    mem_gb=24 if thorough else 14)
    for t in ths:
        t.join()
