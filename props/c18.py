"""C18 — the repair stream is addressed consistently (fountain property).
Engine E2 over the MIR of repair_packets, the source_packets closure, get_encoded_packets and
with_encoding_plan: ids, the ISI handed to Tuple[], and argument equality between windows and single
requests, with s, n, K symbolic; the callees that compute payloads are pure functions of the recorded
arguments (checked syntactically), so equal arguments give equal payloads.  Concrete cross-check of
windows against single requests near the ends of the ESI range."""
import re
import time

from vlib import sx
from vlib.mir import dump_mir, Mir, Exec, Int, Agg, Ref, VecVal, Opaque, Enum
from vlib.native import Replay
from vlib.smtprop import discharge, find_fn

E24 = 1 << 24
NW = 3          # window length bound (loop unrolling)


class Lenable:
    """A Vec of which only the length (a term) matters."""

    def __init__(self, length, tag):
        self.length, self.tag = length, tag


def mk_exec(mir, K, Tsize, record):
    ex = Exec(mir, loop_bound=NW + 2)
    uf = lambda name, t, bits=32: sx.uf(name, t, bits)
    ex.contracts.update({
        "num_lt_symbols": lambda e, a: [(sx.TRUE, "ret", Int(uf("WOF", a[0].t), "u32"), "")],
        "systematic_index": lambda e, a: [(sx.TRUE, "ret", Int(uf("JOF", a[0].t), "u32"), "")],
        "calculate_p1": lambda e, a: [(sx.TRUE, "ret", Int(uf("P1OF", a[0].t), "u32"), "")],
    })

    def c_tuple(e, a):
        record.append(("tuple", [x.t for x in a]))
        isi = a[0].t
        return [(sx.TRUE, "ret", Agg("tuple", [Int(uf("TUP%d" % i, isi), "u32") for i in range(6)]), "")]

    def c_enc(e, a):
        dest, k, slab, tup = a
        record.append(("enc_into", k.t, [f.t for f in tup.fields], dest))
        # the destination buffer now holds Enc[K', C, tuple]: represent it by the tuple it was computed from
        tgt = dest
        if isinstance(tgt, Ref):
            cur = tgt.store[tgt.key]
            tgt.store[tgt.key] = Agg("payload", [f for f in tup.fields] + [k], tyname="Enc(C,tuple)")
        return [(sx.TRUE, "ret", Agg("tuple", []), "")]
    ex.contracts["intermediate_tuple"] = c_tuple
    ex.contracts["enc_into"] = c_enc
    ex.extra_models.update({
        r"^Vec::<Symbol>::len$": lambda e, a, f: [(sx.TRUE, "ret", Int(_len_of(a[0]), "usize"), "")],
        r"^SymbolSlab::symbol_size$": lambda e, a, f: [(sx.TRUE, "ret", Int(Tsize, "usize"), "")],
        r"^<Vec<u8> as DerefMut>::deref_mut$": lambda e, a, f: [(sx.TRUE, "ret", a[0], "")],
        r"^std::vec::from_elem::<u8>$": lambda e, a, f: [(sx.TRUE, "ret", Agg("zeros", [a[1]], tyname="vec![0u8; T]"), "")],
    })
    return ex


def _len_of(v):
    from vlib.mir import Ref
    while isinstance(v, Ref):
        x = v.store[v.key]
        for q in v.proj:
            x = x.fields[q[1]] if q[0] == "field" else x
        v = x
    return v.length


def pure_callees(mir_text):
    """Syntactic purity: the MIR of the payload-computing callees mentions no static."""
    bad = []
    for name in ("intermediate_tuple", "enc_into", "rand", "deg"):
        m = re.search(r"^fn %s\(.*?^}" % name, mir_text, re.S | re.M)
        if not m:
            bad.append("%s: MIR not found" % name)
            continue
        body = m.group(0)
        if re.search(r"\bstatic\b|static mut|thread_local|AtomicU", body) and "OCTET_MUL" not in body:
            bad.append("%s mentions a static" % name)
    return bad


def run(ctx):
    rep = ctx.report
    rep.bounds = {"repair start s": "u32 symbolic", "window length n": "symbolic, unrolled to n <= %d (longer windows are a recorded cut)" % NW,
                  "block size K": "symbolic 1..=56403 (K' through the real look-up; W, J, P1 as uninterpreted functions of K: their correctness is C15's)",
                  "source block number": "u8 symbolic", "blocks in get_encoded_packets": "2 and 3 blocks, repair count r symbolic"}
    rep.assumptions = ["payload equality of overlapping windows is inferred from argument equality: intermediate_tuple/enc_into/rand/deg are pure (no statics in their MIR, checked at run time) and read the same encoder state",
                       "Vec::new/push/extend/len, from_elem, deref_mut, slice iteration are hand models; map/collect of source_packets is not executed, its closure is",
                       "'plans for equal block sizes are interchangeable' is observed natively (plan generated twice, compared) and follows from C06 (every valid plan yields the unique RFC solution)"]
    rep.outside = ["windows longer than %d packets in the symbolic part" % NW, "payload bytes themselves (C04)",
                   "repair starts with K'+s+n >= 2^32: without overflow checks the u32 sums wrap and small ids are produced instead of a refusal "
                   "(outside the property's quantifier K+s+n <= 2^24; noted in DESIGN.md as an observation)"]
    replay = Replay(ctx.scratch.path)
    for oc in (True, False):
        try:
            symbolic_part(ctx, rep, oc, replay)
        except Exception as e:      # an unsupported MIR construct: the symbolic obligations are inconclusive, the concrete part still runs
            import traceback
            rep.inconclusive("c18/symbolic-part[overflow-checks=%s]" % ("on" if oc else "off"), "MIR executor: %s" % (str(e)[:400] or traceback.format_exc()[-400:]))
    concrete_part(ctx, rep, replay)


def symbolic_part(ctx, rep, oc, replay=None):
    if True:
        sx.reset()
        tag = "overflow-checks=%s" % ("on" if oc else "off")
        text = dump_mir(ctx.scratch.path, overflow_checks=oc)
        mir = Mir(text)
        bad = pure_callees(text)
        if bad:
            rep.inconclusive("c18/purity[%s]" % tag, "; ".join(bad))
        else:
            rep.held("c18/payload-callees-are-pure-functions-of-their-arguments[%s]" % tag, "no static/atomic in intermediate_tuple, enc_into, rand, deg", 0.0, "syntactic")
        rp = find_fn(mir, r"::repair_packets$")
        K, S, N, SBN, TS = sx.intvar("K", 1, 56403), sx.var("S", 32), sx.var("N", 32), sx.var("SBN", 8), sx.intvar("TS", 1, 65535)
        # K' = the real look-up (MIR of extended_source_block_symbols, 477-way chain): solver models are then real inputs
        exk = Exec(mir)
        ko = exk.call("extended_source_block_symbols", [Int(K, "u32")])
        kr = [o for o in ko if o.kind == "ret"]
        kext = kr[-1].value.t
        for o in reversed(kr[:-1]):
            kext = sx.ite(o.cond, o.value.t, kext)
        axioms = []
        names = ["K", "S", "N", "SBN"]

        def run_rp(s_term, n_term):
            record = []
            ex = mk_exec(mir, K, TS, record)
            me = Agg("struct", [Int(SBN, "u8"), Lenable(K, "source_symbols"), Opaque("slab")], ["source_block_id", "source_symbols", "intermediate_symbols"], "SourceBlockEncoder")
            store = {"self": me}
            outs = ex.call(rp, [Ref(store, "self"), Int(s_term, "u32"), Int(n_term, "u32")])
            rep.functions = sorted(set(rep.functions) | ex.functions_executed)
            rep.stubs = sorted(set(rep.stubs) | ex.models_used)
            return outs

        outs = run_rp(S, N)
        rets = [o for o in outs if o.kind == "ret"]
        panics = [o for o in outs if o.kind == "panic"]
        fits = sx.le(sx.add(sx.add(K, S), N), sx.const(E24))
        pre = axioms + [sx.le(N, sx.const(NW))]
        wrong = []
        for o in rets:
            pk = o.value.items
            ok = [sx.eq(N, sx.const(len(pk)))]
            for i, p in enumerate(pk):
                pid, data = p.fields
                ok += [sx.eq(pid.fields[0].t, SBN), sx.eq(pid.fields[1].t, sx.add(sx.add(K, S), sx.const(i)))]
                if isinstance(data, Agg) and data.kind == "payload":
                    # the payload is Enc of Tuple[K', K' + s + i] computed with (W,J,P1) of K, for a K-symbol block
                    isi = sx.add(sx.add(kext, S), sx.const(i))
                    ok += [sx.eq(data.fields[j].t, sx.uf("TUP%d" % j, isi, 32)) for j in range(6)]
                    ok.append(sx.eq(data.fields[6].t, K))
                else:
                    ok.append(sx.FALSE)
                if i:
                    ok.append(sx.lt(pk[i - 1].fields[0].fields[1].t, pid.fields[1].t))
            wrong.append(sx.and_(o.cond, sx.not_(sx.and_(*ok))))
        rpl = lambda m: replay_ids(replay, m)
        discharge(ctx, "c18/repair_packets(s,n)[i]=(sbn,K+s+i,Enc(Tuple[K',K'+s+i]))[%s]" % tag, pre + [fits, sx.or_(*wrong)], names, replay=rpl, key_of=lambda r: "repair ids", kind="repair-ids")
        discharge(ctx, "c18/repair_packets-never-panics-while-K+s+n<=2^24[%s]" % tag, pre + [fits, sx.or_(*[o.cond for o in panics])] if panics else [sx.FALSE], names, replay=rpl, kind="repair-ids")
        nowrap = sx.lt(sx.add(sx.add(kext, S), N), sx.const(1 << 32))
        too_big = sx.or_(*[sx.and_(o.cond, sx.or_(*[sx.ge(p.fields[0].fields[1].t, sx.const(E24)) for p in o.value.items])) for o in rets if o.value.items])
        discharge(ctx, "c18/no-packet-with-id>=2^24-is-ever-returned(no-u32-wrap)[%s]" % tag, pre + [nowrap, too_big], names, replay=rpl, kind="repair-ids")
        discharge(ctx, "c18/witness-last-id-2^24-1-producible[%s]" % tag, pre + [sx.eq(sx.add(sx.add(K, S), N), sx.const(E24)), sx.eq(N, sx.const(1)), sx.or_(*[o.cond for o in rets])], names, expect="sat")
        # the tuple arguments recorded for packet i: ISI = K' + s + i with (W, J, P1) of K -- already part of `ok` through TUP(isi);
        # window consistency: packet i of (s, n) equals the only packet of (s + i, 1)
        for i in range(NW):
            single = run_rp(sx.add(S, sx.const(i)), sx.const(1))
            srets = [o for o in single if o.kind == "ret"]
            diff = []
            for o in rets:
                if len(o.value.items) <= i:
                    continue
                a = o.value.items[i]
                for o2 in srets:
                    if not o2.value.items:
                        diff.append(sx.and_(o.cond, o2.cond))
                        continue
                    b = o2.value.items[0]
                    same = [sx.eq(a.fields[0].fields[0].t, b.fields[0].fields[0].t), sx.eq(a.fields[0].fields[1].t, b.fields[0].fields[1].t)]
                    same += [sx.eq(x.t, y.t) for x, y in zip(a.fields[1].fields, b.fields[1].fields)]
                    diff.append(sx.and_(o.cond, o2.cond, sx.not_(sx.and_(*same))))
            single_fails = sx.and_(sx.or_(*[o.cond for o in rets if len(o.value.items) > i]), sx.not_(sx.or_(*[o.cond for o in srets])))
            discharge(ctx, "c18/window(s,n)[%d]==single(s+%d)[%s]" % (i, i, tag), pre + [sx.lt(sx.add(S, sx.const(i)), sx.const(1 << 32)), sx.or_(single_fails, *diff)], names, replay=rpl, kind="window")
        # ---- source_packets closure: packet i = (sbn, i, source symbol i)
        cl = find_fn(mir, r"::source_packets::\{closure#0\}$")
        I = sx.var("I", 64)
        ex = Exec(mir)
        ex.extra_models.update({
            r"^<Vec<Symbol> as Index<usize>>::index$": lambda e, a, f: [(sx.lt(a[1].t, K), "ret", Agg("symbol", [a[1]], tyname="source_symbols[i]"), ""), (sx.ge(a[1].t, K), "panic", None, "index out of bounds")],
            r"^Symbol::as_bytes$": lambda e, a, f: [(sx.TRUE, "ret", a[0], "")],
            r"^std::slice::<impl \[u8\]>::to_vec$": lambda e, a, f: [(sx.TRUE, "ret", a[0], "")],
        })
        me = Agg("struct", [Int(SBN, "u8"), Lenable(K, "source_symbols"), Opaque("slab")], None, "SourceBlockEncoder")
        st = {"self": me}
        st["env"] = Agg("closure", [Ref(st, "self")])
        outs = ex.call(cl, [Ref(st, "env"), Int(I, "usize")])
        rets2 = [o for o in outs if o.kind == "ret"]
        wrong = [sx.and_(o.cond, sx.not_(sx.and_(sx.eq(o.value.fields[0].fields[0].t, SBN), sx.eq(o.value.fields[0].fields[1].t, I),
                                                  sx.eq(o.value.fields[1].fields[0].t, I)))) for o in rets2]
        discharge(ctx, "c18/source_packets[i]=(sbn,i,source-symbol-i)[%s]" % tag, [sx.lt(I, K), sx.or_(sx.not_(sx.or_(*[o.cond for o in rets2])), *wrong)], ["K", "I", "SBN"], replay=rpl, kind="source-ids")
        rep.functions = sorted(set(rep.functions) | ex.functions_executed)
        # ---- get_encoded_packets: block by block, source then repair(0, r)
        gp = find_fn(mir, r"::get_encoded_packets$")
        for nblocks in (2, 3):
            calls = []
            ex = Exec(mir, loop_bound=nblocks + 2)
            ex.contracts["SourceBlockEncoder::source_packets"] = lambda e, a: (calls.append(("src", a[0])), [(sx.TRUE, "ret", VecVal([("src", id(_obj(a[0])))]), "")])[1]
            ex.contracts["SourceBlockEncoder::repair_packets"] = lambda e, a: (calls.append(("rep", a[0], a[1].t, a[2].t)), [(sx.TRUE, "ret", VecVal([("rep", id(_obj(a[0])), a[1].t, a[2].t)]), "")])[1]

            def m_extend(e, a, f):
                from vlib.mir import _AdvanceIter
                r, add = a
                cur = r.store[r.key]
                return [(sx.TRUE, "ret", _AdvanceIter(r, VecVal(cur.items + add.items), Agg("tuple", [])), "")]
            ex.extra_models[r"^<Vec<EncodingPacket> as Extend<EncodingPacket>>::extend::<Vec<EncodingPacket>>$"] = m_extend
            ex.extra_models[r"^<Vec<SourceBlockEncoder> as Deref>::deref$"] = lambda e, a, f: [(sx.TRUE, "ret", a[0], "")]
            blocks = [Agg("struct", [Int(sx.const(b), "u8")], None, "SourceBlockEncoder#%d" % b) for b in range(nblocks)]
            R = sx.var("R", 32)
            enc = Agg("struct", [Opaque("config"), Agg("array", blocks)], ["config", "blocks"], "Encoder")
            st = {"enc": enc}
            try:
                outs = ex.call(gp, [Ref(st, "enc"), Int(R, "u32")])
                ok = len(outs) == 1 and outs[0].kind == "ret"
                if ok:
                    items = outs[0].value.items
                    want = []
                    for b in blocks:
                        want += [("src", id(b)), ("rep", id(b))]
                    got = [(it[0], it[1]) for it in items]
                    ok = got == want and all(it[0] == "src" or (sx.is_const(it[2]) and sx.cval(it[2]) == 0 and it[3] is R) for it in items)
                if ok:
                    rep.held("c18/get_encoded_packets=block-by-block(source,then-repair(0,r))/%d-blocks[%s]" % (nblocks, tag), "r symbolic", 0.0, "mir-exec")
                else:
                    rep.violated("c18/get_encoded_packets/%d-blocks[%s]" % (nblocks, tag), "packet-list-order", "get_encoded_packets does not list, block by block, the source packets followed by repair_packets(0, r): %s" % (outs,),
                                 {"kind": "order", "blocks": nblocks}, 0.0, "mir-exec")
            except Exception as e:
                rep.inconclusive("c18/get_encoded_packets/%d-blocks[%s]" % (nblocks, tag), "executor: %s" % str(e)[:300])
            rep.functions = sorted(set(rep.functions) | ex.functions_executed)
        # ---- with_encoding_plan refuses a plan generated for another symbol count
        wp = find_fn(mir, r"::with_encoding_plan$")
        ex = Exec(mir)
        PC = sx.var("PC", 16)
        ex.contracts["SourceBlockEncoder::create_symbols"] = lambda e, a: [(sx.TRUE, "ret", Lenable(K, "symbols"), "")]
        ex.contracts["gen_intermediate_symbols_with_plan"] = lambda e, a: [(sx.TRUE, "ret", Opaque("slab"), "")]
        ex.extra_models.update({r"^Vec::<Symbol>::len$": lambda e, a, f: [(sx.TRUE, "ret", Int(_len_of(a[0]), "usize"), "")],
                                r"^<Vec<Symbol> as Deref>::deref$": lambda e, a, f: [(sx.TRUE, "ret", a[0], "")],
                                r"^<Vec<SymbolOps> as Deref>::deref$": lambda e, a, f: [(sx.TRUE, "ret", a[0], "")],
                                r"^ObjectTransmissionInformation::symbol_size$": lambda e, a, f: [(sx.TRUE, "ret", Int(sx.var("T", 16), "u16"), "")]})
        plan = Agg("struct", [Opaque("ops"), Int(PC, "u16")], ["operations", "source_symbol_count"], "SourceBlockEncodingPlan")
        st = {"plan": plan, "cfg": Opaque("cfg"), "data": Opaque("data")}
        try:
            outs = ex.call(wp, [Int(SBN, "u8"), Ref(st, "cfg"), Ref(st, "data"), Ref(st, "plan")])
            accepted = sx.or_(*[o.cond for o in outs if o.kind == "ret"])
            discharge(ctx, "c18/with_encoding_plan-accepts-iff-plan-count==K[%s]" % tag, [sx.not_(sx.eq(accepted, sx.eq(K, PC)))], ["K", "PC"], replay=rpl, kind="plan-count")
        except Exception as e:
            rep.inconclusive("c18/with_encoding_plan[%s]" % tag, "executor: %s" % str(e)[:300])
        rep.functions = sorted(set(rep.functions) | ex.functions_executed)


def concrete_part(ctx, rep, replay):
    # ---- concrete: windows vs singles, near both ends of the id range; plans interchangeable
    t0 = time.time()
    n = 0
    # block sizes with and without padding (K' > K resp. K' = K), windows at both ends of the id range
    for K, T, s, cnt in ((10, 3, 0, 4), (10, 3, E24 - 10 - 4, 4), (27, 2, 1 << 23, 3), (3, 5, 65534, 4), (101, 1, E24 - 101 - 2, 2),
                         (3, 2, E24 - 3 - 4, 4), (11, 1, E24 - 11 - 3, 3), (100, 1, E24 - 100 - 1, 1)):
        for prof in (False, True):
            win = replay.run(["repair", K, T, s, cnt], release=prof)
            singles = [replay.run(["repair", K, T, s + i, 1], release=prof) for i in range(cnt)]
            n += 1
            w = parse_packets(win)
            sg = []
            for x in singles:
                p1 = parse_packets(x)
                sg.append(p1[0] if p1 and len(p1) == 1 else None)
            ids = [i for i, _ in w] if w else []
            if w is None or w != sg or ids != [K + s + i for i in range(cnt)]:
                rep.violated("c18/native/window-vs-singles/K=%d,s=%d,n=%d" % (K, s, cnt), "window K=%d s=%d" % (K, s),
                             "repair_packets(%d,%d) = %s but single requests give %s" % (s, cnt, str(w)[:200], str(sg)[:200]), {"kind": "window", "K": K, "T": T, "s": s, "n": cnt}, 0.0, "native")
        over = replay.run(["repair", K, T, E24 - K, 1], release=True)
        po = parse_packets(over)
        if po is not None and any(i >= E24 for i, _ in po):
            rep.violated("c18/native/id-2^24-refused/K=%d" % K, "id 2^24", "a repair packet with encoding symbol id 2^24 was produced: %s" % over[:100], {"kind": "window", "K": K, "T": T, "s": E24 - K, "n": 1}, 0.0, "native")
    # plans are interchangeable: the block encoders inside a multi-block Encoder equal standalone and explicitly planned ones,
    # in particular for neighbouring block sizes KL, KS = KL-1 that map to different K' (KS a Table-2 value: 10, 12, 18, 26, ...)
    for F, T, Z in ((168, 8, 2), (100, 4, 2), (111, 3, 3), (212, 4, 2), (500, 2, 3), (37, 1, 2), (1000, 8, 5)):
        for prof in (False, True):
            ob = replay.run(["object-vs-blocks", F, T, Z], release=prof)
            n += 1
            if not ob.startswith("blocks") or "false" in ob:
                rep.violated("c18/native/object-blocks-vs-standalone/F=%d,T=%d,Z=%d" % (F, T, Z), "object blocks F=%d" % F,
                             "a block encoder inside Encoder::new differs from a standalone / explicitly planned encoder over the same bytes (block:K:same = %s)" % ob[:200],
                             {"kind": "object-vs-blocks", "F": F, "T": T, "Z": Z}, 0.0, "native")
                break
    pl = replay.run(["plan", 26], release=True)
    if "equal=true" not in pl:
        rep.violated("c18/native/plans-interchangeable", "plan", "two plans generated for K=26 differ: %s" % pl[:100], {"kind": "plan", "K": 26}, 0.0, "native")
    rep.held("c18/native/windows==singles,ids,2^24-refused,plans-equal", "%d window comparisons" % n, time.time() - t0, "native/concrete", runs=n)


def parse_packets(out):
    """'packets id:hex,id:hex' -> list of (id, hex); None on panic/other."""
    if not out.startswith("packets"):
        return None
    body = out[len("packets"):].strip()
    return [(int(x.split(":")[0]), x.split(":")[1]) for x in body.split(",") if x]


def replay_ids(replay, model):
    """Native check of one repair window against the id contract (K + s + i, n packets, refusal at 2^24)."""
    K, S, N = model.get("K", 1), model.get("S", 0), model.get("N", 0)
    if K > 3000 or N > 64:
        K = min(K, 3000)
    res = replay.both(["repair", K, 1, S, N])
    bad = []
    for prof, out in res.items():
        pk = parse_packets(out)
        fits = K + S + N <= E24
        if fits:
            if pk is None or [i for i, _ in pk] != [K + S + i for i in range(N)]:
                bad.append(prof)
        else:
            if pk is not None and any(i >= E24 for i, _ in pk):
                bad.append(prof)
    return {"inputs": {"K": K, "S": S, "N": N}, "native": {k: v[:200] for k, v in res.items()}, "reproduced_in": bad}


def _obj(r):
    from vlib.mir import Ref
    if isinstance(r, Ref):
        x = r.store[r.key]
        for q in r.proj:
            if q[0] == "field":
                x = x.fields[q[1]]
            elif q[0] == "index":
                pass
        return x
    return r


def replay(path):
    import json
    from vlib.common import Scratch
    obj = json.load(open(path))
    r = Replay(Scratch("replay").path)
    if obj.get("kind") == "window":
        print(r.both(["repair", obj["K"], obj["T"], obj["s"], obj["n"]]))
    elif obj.get("kind") == "object-vs-blocks":
        print(r.both(["object-vs-blocks", obj["F"], obj["T"], obj["Z"]]))
    else:
        print(json.dumps(obj, indent=1)[:2000])
    return 0
