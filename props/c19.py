"""C19 — ObjectTransmissionInformation::new enforces the documented limits.
Engine E2 (MIR -> Int SMT, division lemma) for the verdict, both overflow-check settings."""
import re

from vlib import sx
from vlib.mir import dump_mir, Mir, Exec, Int
from vlib.native import Replay
from vlib.smtprop import discharge, find_fn

MAXF = 942574504275
KMAX = 56403


def oracle_valid(F, T, Z, Al):
    """RFC limits in unbounded integers, multiplication form (independent of the code's divisions)."""
    return sx.and_(sx.le(F, sx.const(MAXF)),
                   sx.eq(sx.rem(T, Al), sx.const(0)),
                   sx.le(F, sx.mul(sx.const(KMAX), sx.mul(Z, T))))


def py_valid(F, T, Z, Al):
    return F <= MAXF and T % Al == 0 and F <= KMAX * Z * T


def run(ctx):
    rep = ctx.report
    rep.bounds = {"inputs": "F: u64, T: u16, Z: u8, N: u16, Al: u8 over their whole types, with T,Z,Al > 0 (the property's precondition)",
                  "loops": "none"}
    rep.assumptions = ["oracle: valid <=> F <= 942574504275 /\\ Al | T /\\ F <= 56403*Z*T over unbounded integers",
                       "library model: u64::is_multiple_of(a,b) = (b=0 ? a=0 : a mod b = 0)",
                       "division by a symbolic divisor is encoded as fresh q,r with a=q*b+r, 0<=r<b"]
    replay = Replay(ctx.scratch.path)
    for oc in (True, False):
        sx.reset()
        text = dump_mir(ctx.scratch.path, overflow_checks=oc)
        mir = Mir(text)
        ex = Exec(mir)
        new = find_fn(mir, r"^base::<impl at src/base\.rs[^>]*>::new$", ["u64", "u16", "u8", "u16", "u8"])
        F, T, Z, N, Al = sx.var("F", 64), sx.var("T", 16), sx.var("Z", 8), sx.var("N", 16), sx.var("Al", 8)
        outs = ex.call(new, [Int(F, "u64"), Int(T, "u16"), Int(Z, "u8"), Int(N, "u16"), Int(Al, "u8")])
        rep.functions = sorted(set(rep.functions) | ex.functions_executed)
        rep.stubs = sorted(set(rep.stubs) | ex.models_used)
        pre = sx.and_(sx.gt(T, sx.const(0)), sx.gt(Z, sx.const(0)), sx.gt(Al, sx.const(0)))
        rets = [o for o in outs if o.kind == "ret"]
        cuts = [o for o in outs if o.kind == "cut"]
        accepted = sx.or_(*[o.cond for o in rets])
        valid = oracle_valid(F, T, Z, Al)
        tag = "overflow-checks=%s" % ("on" if oc else "off")
        names = ["F", "T", "Z", "N", "Al"]

        def replay_accept(model, expect_accept):
            vals = [model.get(n, 0) for n in names]
            if vals[1] == 0 or vals[2] == 0 or vals[4] == 0:
                return None
            res = replay.both(["oti-new"] + vals)
            ok = py_valid(vals[0], vals[1], vals[2], vals[4])
            got = {k: v.startswith("accepted") for k, v in res.items()}
            # reproduces when some real build accepts an invalid set / refuses a valid one
            bad = [k for k, acc in got.items() if acc != ok]
            return {"inputs": dict(zip(names, vals)), "oracle_valid": ok, "native": res, "reproduced_in": bad}

        if cuts:
            rep.inconclusive("c19/no-cuts[%s]" % tag, "executor cut paths: %s" % cuts[0].msg)
        discharge(ctx, "c19/valid=>accepted[%s]" % tag, [pre, valid, sx.not_(accepted)], names,
                  replay=lambda m: replay_accept(m, True), key_of=lambda r: "refuses-valid", kind="oti-new")
        discharge(ctx, "c19/accepted=>valid[%s]" % tag, [pre, sx.not_(valid), accepted], names,
                  replay=lambda m: replay_accept(m, False),
                  key_of=lambda r: "accepts-invalid", kind="oti-new")
        # accepted configurations report exactly the given values
        diff = []
        for o in rets:
            f = o.value.fields
            same = sx.and_(sx.eq(f[0].t, F), sx.eq(f[1].t, T), sx.eq(f[2].t, Z), sx.eq(f[3].t, N), sx.eq(f[4].t, Al))
            diff.append(sx.and_(o.cond, sx.not_(same)))
        discharge(ctx, "c19/reports-given-values[%s]" % tag, [pre, sx.or_(*diff)], names,
                  replay=lambda m: None, key_of=lambda r: "reports-other-values", kind="oti-new")
        # vacuity witnesses: both sides of the equivalence are inhabited
        discharge(ctx, "c19/witness-valid-accepted[%s]" % tag, [pre, valid, accepted], names, expect="sat")
        discharge(ctx, "c19/witness-invalid-refused[%s]" % tag, [pre, sx.not_(valid), sx.not_(accepted)], names, expect="sat")


def replay(path):
    import json
    from vlib.common import Scratch
    obj = json.load(open(path))
    r = Replay(Scratch("replay").path)
    i = obj["replay"]["inputs"]
    res = r.both(["oti-new", i["F"], i["T"], i["Z"], i["N"], i["Al"]])
    print(json.dumps({"inputs": i, "oracle_valid": py_valid(i["F"], i["T"], i["Z"], i["Al"]), "native": res}, indent=1))
    return 0
