"""C06 — every block size is encodable; intermediate symbols satisfy all constraints.
Engine E3: every operation program the real solver emits (dense/sparse back-end, direct solve / plan,
debug-assertion and release builds) is validated for ALL data against the RFC 6330 transcription."""
import time

from vlib import cert, rfc
from vlib.e3run import certify_many, parse_encsolve, DENSE_THR, SPARSE_THR
from vlib.native import Native


def rows_upto(bound):
    return [r[0] for r in rfc.TABLE2 if r[0] <= bound]


def collect_programs(ctx, native, kps, T=2, profiles=(False, True), concrete=True):
    """Run the real code for every K' and flavour; returns (jobs, facts, problems)."""
    rep = ctx.report
    jobs, problems, facts = [], [], []
    for kp in kps:
        p = rfc.Params(kp)
        prev = rfc.TABLE2[p.row - 1][0] if p.row else 0
        for release in profiles:
            prof = "release" if release else "debug-assertions"
            for flavour, args in (("dense/direct", ["encsolve", kp, DENSE_THR, T]), ("sparse/direct", ["encsolve", kp, SPARSE_THR, T]),
                                  ("plan(default threshold)/replay", ["plan", kp, T])):
                tag = "K'=%d/%s/%s" % (kp, flavour, prof)
                out = native.run(args, release=release)
                if out.startswith("panic") or out.startswith("noresult") or out.startswith("unsolved"):
                    problems.append((tag, "building the intermediate symbols failed: %s" % out[:160], {"K": kp, "flavour": flavour, "profile": prof}))
                    continue
                r = parse_encsolve(out)
                if "program" not in r:
                    problems.append((tag, "no program in native output: %s" % out[:100], {"K": kp}))
                    continue
                jobs.append((tag, kp, r["program"]))
                if concrete:
                    # the real code's own result on tagged data satisfies the RFC system (concrete cross-check)
                    bad = cert.check_system_concrete(p, r["C"], range(p.Kp), r["src"] + [bytes(T)] * (p.Kp - len(r["src"])), T)
                    if bad:
                        problems.append((tag, "intermediate symbols computed by the real code violate %s on tagged data" % bad[:4],
                                         {"K": kp, "flavour": flavour, "profile": prof, "src": [s.hex() for s in r["src"]], "C": [c.hex() for c in r["C"]]}))
                    mine = cert.run_program_concrete(r["program"], [bytes(T)] * (p.S + p.H) + r["src"] + [bytes(T)] * (p.Kp - len(r["src"])), T)
                    if mine != r["C"]:
                        problems.append((tag, "the emitted program replayed by the checker does not reproduce the real code's intermediate symbols "
                                         "(F_2 model of the ops != real kernels, or ops incomplete)", {"K": kp, "flavour": flavour, "profile": prof}))
                    if flavour.startswith("plan") and not r.get("deterministic", True):
                        problems.append((tag, "SourceBlockEncodingPlan::generate is not deterministic", {"K": kp}))
                facts.append(tag)
            # a block with padding (K < K'): same program by construction of the solver input; concrete check only
            if concrete and kp - 1 > prev and not release:
                out = native.run(["encsolve", kp - 1, SPARSE_THR if kp % 2 else DENSE_THR, T], release=False)
                if out.startswith("solved"):
                    r = parse_encsolve(out)
                    bad = cert.check_system_concrete(p, r["C"], range(p.Kp), r["src"] + [bytes(T)] * (p.Kp - len(r["src"])), T)
                    if bad:
                        problems.append(("K=%d(padded to %d)" % (kp - 1, kp), "padded block violates %s" % bad[:4], {"K": kp - 1}))
                else:
                    problems.append(("K=%d(padded to %d)" % (kp - 1, kp), "failed: %s" % out[:120], {"K": kp - 1}))
    return jobs, facts, problems


def report_certificates(ctx, jobs, results, nprog, prefix, native, T=1):
    rep = ctx.report
    by_prog = {}
    for tag, kp, prog in [(j[0], j[1], j[2]) for j in jobs]:
        r = results[tag]
        by_prog.setdefault((kp, r["program_key"]), []).append(tag)
    for (kp, key), tags in sorted(by_prog.items()):
        r = results[tags[0]]
        name = "%s/certificate/K'=%d/program-%s" % (prefix, kp, key)
        extra = dict(flavours=tags, ops=r.get("ops"), ff_variables=r.get("vars"), build_s=round(r.get("build_s", 0), 2))
        if r["status"] == "unsat":
            rep.held(name, "A_rfc*C = D for all data", r.get("solve_s", 0.0), "cvc5-ff", **extra)
            continue
        # not proved: look for concrete data with z3 and replay natively
        prog = next(j[2] for j in jobs if j[0] == tags[0])
        data = None
        if kp <= 101:
            try:
                data = cert.z3_encoder_counterexample(kp, prog, 300)
            except Exception as e:
                data = None
        if data is not None:
            p = rfc.Params(kp)
            out = native.run(["encode", 1, bytes(data).hex()], release=True)
            real_c = None
            for ln in out.splitlines():
                if ln.startswith("C "):
                    real_c = [bytes.fromhex(x) for x in ln[2:].split(",")]
            bad = cert.check_system_concrete(p, real_c, range(p.Kp), [bytes([b]) for b in data], 1) if real_c else ["no output"]
            if bad:
                rep.violated(name, "encoder K'=%d" % kp, "for source bytes %s the real encoder's intermediate symbols violate %s" % (bytes(data).hex()[:60], bad[:4]),
                             {"kind": "encoder-data", "K": kp, "data": bytes(data).hex(), "violated_rows": bad[:20], "flavours": tags}, r.get("solve_s", 0.0), "cvc5-ff+z3", **extra)
                continue
            rep.inconclusive(name, "certificate %s; z3 model does not reproduce through SourceBlockEncoder::new (flavours %s)" % (r["status"], tags[:2]), r.get("solve_s", 0.0), "cvc5-ff+z3", **extra)
        else:
            rep.inconclusive(name, "certificate not proved (%s) and no counterexample found" % r.get("status"), r.get("solve_s", 0.0), "cvc5-ff", **extra)


def concrete_large_rows(ctx, native, rest, prefix, thorough, limit=7000):
    """Rows above the certificate bound: the public encoder path must build (release) and its real result on tagged data
    must satisfy every LDPC/HDPC/LT relation; its first repair packets must be Enc of that C (concrete)."""
    rep = ctx.report
    t0 = time.time()
    failed, wrong = [], []
    for kp in rest:
        out = native.run(["csolve", kp, 1], release=True, timeout=3600)
        if not out.startswith("csolved"):
            failed.append((kp, out[:120]))
            continue
        if kp > limit and not thorough:
            continue            # quick: the largest rows are only built (the Python-side check costs minutes there)
        r = parse_encsolve(out)
        p = rfc.Params(kp)
        bad = cert.check_system_concrete(p, r["C"], range(p.Kp), r["src"], 1)
        rp = [bytes.fromhex(x) for ln in out.splitlines() if ln.startswith("REPAIR ") for x in ln[7:].split(",")]
        for i, got in enumerate(rp):
            if got != rfc.enc_symbol(p, r["C"], p.Kp + i, 1):
                bad.append("repair packet %d != Enc(C, Tuple[K', K'+%d])" % (i, i))
        if bad:
            wrong.append((kp, bad[:4]))
    for kp, msg in failed:
        rep.violated("%s/native/build-K'=%d" % (prefix, kp), "build K'=%d" % kp, "SourceBlockEncoder::new for a %d-symbol block fails: %s" % (kp, msg), {"kind": "plan", "K": kp}, 0.0, "native")
    for kp, bad in wrong:
        rep.violated("%s/native/concrete-system-K'=%d" % (prefix, kp), "concrete K'=%d" % kp, "intermediate symbols / repair packets of a K'=%d block violate %s on tagged data" % (kp, bad),
                     {"kind": "encoder-native", "K": kp, "violated_rows": bad}, 0.0, "native")
    if not failed and not wrong:
        rep.held("%s/native/every-listed-K'-builds-and-meets-the-RFC-system-on-tagged-data" % prefix,
                 "%d rows above the certificate bound built in release (largest %d); concrete LDPC/HDPC/LT + repair-packet check of the real result" % (len(rest), max(rest)),
                 time.time() - t0, "native/concrete", rows=len(rest))


def run(ctx):
    rep = ctx.report
    thorough = ctx.tier == "thorough"
    bound = 257 if thorough else 55
    import os
    if os.environ.get("VERIF_ROWS"):
        bound = int(os.environ["VERIF_ROWS"])
    kps = rows_upto(bound)
    rep.functions = ["encoder::gen_intermediate_symbols", "encoder::gen_intermediate_symbols_with_plan", "encoder::SourceBlockEncodingPlan::generate",
                     "constraint_matrix::generate_constraint_matrix::<DenseBinaryMatrix|SparseBinaryMatrix>", "pi_solver::IntermediateSymbolDecoder::{new,execute} (all five phases)",
                     "operation_vector::perform_op", "symbol_slab::SymbolSlab::{add_assign,mulassign_scalar,fma,set_reorder}"]
    rep.bounds = {"Table-2 rows": "every K' <= %d (%d rows) certified for all data; all 477 rows built natively in release (thorough) / every row up to K'=1200, a spread of 24 larger rows and the rows whose P, W or L sits on a 64-bit word boundary (quick)" % (bound, len(kps)),
                  "back-ends": "dense (threshold 60000) and sparse (threshold 0) direct solves, plan generated with the default threshold and replayed",
                  "profiles": "debug-assertions+overflow-checks and release", "data": "all source symbols symbolic (8 F_2 variables per byte column)"}
    rep.assumptions = ["the F_2 meaning of AddAssign/MulAssign/FMA/Reorder is tied to the real kernels by C09-C11 (and cross-checked here on tagged data by replaying the program in the checker)",
                       "RFC transcription vlib/rfc.py over pinned tables", "cvc5 1.4 finite-field solver (no CoCoA: unsat side only); z3 for counterexamples",
                       "programs are obtained from concrete runs of the real solver; the solver's control flow does not depend on symbol data (it only records operations)"]
    rep.outside = ["K' > %d for the all-data certificate (cost grows ~K'^2.3)" % bound, "symbol sizes other than 1 byte column (lifted by C09)"]
    native = Native(ctx.scratch.path)
    t0 = time.time()
    jobs, facts, problems = collect_programs(ctx, native, kps)
    for tag, what, obj in problems:
        rep.violated("c06/native/%s" % tag, "native %s" % tag, what, dict(obj, kind="encoder-native"), 0.0, "native")
    rep.held("c06/native/programs-emitted-and-concrete-cross-checks", "%d flavour runs" % len(facts), time.time() - t0, "native", runs=len(facts)) if not problems else None
    # "building an encoder succeeds" for rows above the certificate bound (concrete, release build)
    rest = [r[0] for r in rfc.TABLE2 if r[0] > bound]
    if not thorough:
        step = max(1, len(rest) // 24)
        spread = rest[::step][:24] + [56403]
        # the matrices are bit-packed in 64-bit words: add the rows whose dimensions sit on a word boundary
        edge = []
        for r in rfc.TABLE2:
            if r[0] <= bound or r[0] > 30000:
                continue
            p = rfc.Params(r[0])
            if p.P % 64 == 0 or any(v % 64 in (0, 63) for v in (p.W, p.L)) and len(edge) < 14:
                edge.append(r[0])
        # every row up to K' = 1200 is cheap to build and check concretely (about a second each)
        small = [r[0] for r in rfc.TABLE2 if bound < r[0] <= 1200]
        rest = sorted(set(spread + edge + small))
    concrete_large_rows(ctx, native, rest, "c06", thorough)
    results, nprog = certify_many(jobs, "enc", ctx.jobs, tlimit=3000 if thorough else 600)
    report_certificates(ctx, jobs, results, nprog, "c06", native)
    rep.coverage["programs"] = nprog
    rep.coverage["program_runs"] = len(jobs)


def replay(path):
    import json
    from vlib.common import Scratch
    obj = json.load(open(path))
    native = Native(Scratch("replay").path)
    if obj.get("kind") == "encoder-data":
        p = rfc.Params(obj["K"])
        data = bytes.fromhex(obj["data"])
        out = native.run(["encode", 1, obj["data"]], release=True)
        real_c = [bytes.fromhex(x) for ln in out.splitlines() if ln.startswith("C ") for x in ln[2:].split(",")]
        print("violated rows:", cert.check_system_concrete(p, real_c, range(p.Kp), [bytes([b]) for b in data], 1))
    else:
        print(json.dumps(obj, indent=1)[:3000])
    return 0
