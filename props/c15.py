"""C15 — code parameters and symbol tuples are well-formed for every K and every ESI.
E2 (MIR -> SMT) for the look-up functions (symbolic K), panic-freedom / ranges / RFC equality of
Tuple[] per Table-2 row with the internal symbol id symbolic over its whole reachable range, in both
overflow-check settings; E1 (Kani) for Enc[] index generation from an arbitrary in-range tuple."""
import concurrent.futures as cf
import time

from vlib import rfc, sx
from vlib.kani import Overlay, unwindset_for
from vlib.kaniprop import run_harnesses
from vlib.mir import dump_mir, Mir, Exec, Int, Agg, ConstArray
from vlib.native import Replay
from vlib.smtprop import discharge

LOOKUPS = ["extended_source_block_symbols", "systematic_index", "num_ldpc_symbols", "num_hdpc_symbols",
           "num_lt_symbols", "num_intermediate_symbols", "num_pi_symbols", "calculate_p1"]


def oracle_col(name):
    """Column of the pinned tables that the look-up must return for the row of K."""
    def f(i):
        kp, j, s, h, w = rfc.TABLE2[i]
        return {"extended_source_block_symbols": kp, "systematic_index": j, "num_ldpc_symbols": s,
                "num_hdpc_symbols": h, "num_lt_symbols": w, "num_intermediate_symbols": kp + s + h,
                "num_pi_symbols": kp + s + h - w, "calculate_p1": rfc.P1S[i]}[name]
    return f


def table_from_mir(ex, name):
    v = ex._const(name)
    rows = v.values if isinstance(v, ConstArray) else v.fields
    return [[sx.cval(f.t) for f in r.fields] if isinstance(r, Agg) else sx.cval(r.t) for r in rows]


def sx_rand(y, i, m, Vn):
    xs = [sx.rem(sx.add(sx.div(y, sx.const(1 << (8 * k))), sx.const(i)), sx.const(256)) for k in range(4)]
    t = sx.uf(Vn[0], xs[0], 32)
    for k in (1, 2, 3):
        t = sx.bitop("xor", t, sx.uf(Vn[k], xs[k], 32), 32)
    return sx.rem(t, sx.const(m))


def sx_tuple_constraints(X, row, got, Vn):
    """Returns the formula 'got == Tuple[K', X]' for the RFC transcription (pinned constants)."""
    kp, J, S, H, W = rfc.TABLE2[row]
    P1 = rfc.P1S[row]
    A = 53591 + J * 997
    if A % 2 == 0:
        A += 1
    B = 10267 * (J + 1)
    y = sx.rem(sx.add(sx.const(B), sx.mul(X, sx.const(A))), sx.const(1 << 32))
    v = sx_rand(y, 0, 1 << 20, Vn)
    d, a, b, d1, a1, b1 = got
    # Deg[v]: the unique d' with f[d'-1] <= v < f[d'], then min(d', W-2)
    deg_ok = sx.or_(*[sx.and_(sx.le(sx.const(rfc.DEG_F[k - 1]), v), sx.lt(v, sx.const(rfc.DEG_F[k])),
                              sx.eq(d, sx.const(min(k, W - 2)))) for k in range(1, 31)])
    d1_ok = sx.ite(sx.lt(d, sx.const(4)), sx.eq(d1, sx.add(sx.const(2), sx_rand(X, 3, 2, Vn))), sx.eq(d1, sx.const(2)))
    return sx.and_(deg_ok,
                   sx.eq(a, sx.add(sx.const(1), sx_rand(y, 1, W - 1, Vn))),
                   sx.eq(b, sx_rand(y, 2, W, Vn)),
                   d1_ok,
                   sx.eq(a1, sx.add(sx.const(1), sx_rand(X, 4, P1 - 1, Vn))),
                   sx.eq(b1, sx_rand(X, 5, P1, Vn)))


def refine_tuple_bv(mir, kp, timeout_s):
    """Bit-precise version of the tuple query for one row: concrete V tables (select), real xor, BV encoding."""
    p_ = rfc.Params(kp)
    ex2 = Exec(mir)        # no symbolic tables: look-ups become selects over the constant arrays
    X = sx.var("X", 32)
    outs = ex2.call("intermediate_tuple", [Int(X, "u32"), Int(sx.const(p_.W), "u32"), Int(sx.const(p_.J), "u32"), Int(sx.const(p_.P1), "u32")])
    viol = []

    def sel_rand(y, i, m):
        xs = [sx.rem(sx.add(sx.div(y, sx.const(1 << (8 * k))), sx.const(i)), sx.const(256)) for k in range(4)]
        t = sx.select_const_array("V0", rfc.V[0], xs[0], 32)
        for k in (1, 2, 3):
            t = sx.bitop("xor", t, sx.select_const_array("V%d" % k, rfc.V[k], xs[k], 32), 32)
        return sx.rem(t, sx.const(m))
    A = 53591 + p_.J * 997
    A += 1 if A % 2 == 0 else 0
    y = sx.rem(sx.add(sx.const(10267 * (p_.J + 1)), sx.mul(X, sx.const(A))), sx.const(1 << 32))
    v = sel_rand(y, 0, 1 << 20)
    for o in [o for o in outs if o.kind == "ret"]:
        d, a, b, d1, a1, b1 = [f.t for f in o.value.fields]
        deg_ok = sx.or_(*[sx.and_(sx.le(sx.const(rfc.DEG_F[k - 1]), v), sx.lt(v, sx.const(rfc.DEG_F[k])), sx.eq(d, sx.const(min(k, p_.W - 2)))) for k in range(1, 31)])
        spec = sx.and_(deg_ok, sx.eq(a, sx.add(sx.const(1), sel_rand(y, 1, p_.W - 1))), sx.eq(b, sel_rand(y, 2, p_.W)),
                       sx.ite(sx.lt(d, sx.const(4)), sx.eq(d1, sx.add(sx.const(2), sel_rand(X, 3, 2))), sx.eq(d1, sx.const(2))),
                       sx.eq(a1, sx.add(sx.const(1), sel_rand(X, 4, p_.P1 - 1))), sx.eq(b1, sel_rand(X, 5, p_.P1)))
        viol.append(sx.and_(o.cond, sx.not_(spec)))
    asserts = [sx.lt(X, sx.const((1 << 24) + kp)), sx.or_(*viol)]
    bits, _ = sx.max_bits(asserts)
    try:
        script = sx.BVPrinter(bits).script(asserts, ["X"])
    except Exception as e:
        return None, "error:%s" % str(e)[:100]
    v_, rs = sx.portfolio(script, max(timeout_s, 300), ("z3",), grace_s=0)
    if v_ == "sat":
        return rs[0].model.get("X"), "sat"
    return None, v_


def check_tuples(ctx, ex, t2, p1t, tag, replay, prefix="c15", rows=None, native=None):
    """Per Table-2 row: Tuple[] never panics, lies in range and equals the RFC transcription, X symbolic."""
    rep = ctx.report
    thorough = ctx.tier == "thorough"
    Vn = ("V0", "V1", "V2", "V3")
    if native is None:
        from vlib.native import Native
        native = Native(ctx.scratch.path)
    if True:
        # --- C. Tuple[] per row
        rows = list(range(477)) if rows is None else rows
        nrows = len(rows)
        jobs = []
        for row in rows:
            kp, J, S, H, W = t2[row] if row < len(t2) else rfc.TABLE2[row]
            P1 = p1t[row][1]
            X = sx.var("X", 32)
            outs = ex.call("intermediate_tuple", [Int(X, "u32"), Int(sx.const(W), "u32"), Int(sx.const(J), "u32"), Int(sx.const(P1), "u32")])
            xr = sx.lt(X, sx.const((1 << 24) + kp))
            bad = [o for o in outs if o.kind != "ret"]
            rets = [o for o in outs if o.kind == "ret"]
            q1 = sx.IntPrinter().script([xr, sx.or_(*[o.cond for o in bad])], ["X"]) if bad else None
            viol = []
            for o in rets:
                d, a, b, d1, a1, b1 = [f.t for f in o.value.fields]
                ranges = sx.and_(sx.le(sx.const(1), d), sx.le(d, sx.const(min(30, W - 2))), sx.le(sx.const(1), a), sx.lt(a, sx.const(W)),
                                 sx.lt(b, sx.const(W)), sx.or_(sx.eq(d1, sx.const(2)), sx.eq(d1, sx.const(3))),
                                 sx.le(sx.const(1), a1), sx.lt(a1, sx.const(P1)), sx.lt(b1, sx.const(P1)))
                spec = sx_tuple_constraints(X, row, (d, a, b, d1, a1, b1), Vn)
                viol.append(sx.and_(o.cond, sx.not_(sx.and_(ranges, spec))))
            q2 = sx.IntPrinter().script([xr, sx.or_(*viol)], ["X"])
            jobs.append((row, kp, q1, q2, [o.msg for o in bad]))
        rep.functions = sorted(set(rep.functions) | ex.functions_executed)
        rep.stubs = sorted(set(rep.stubs) | ex.models_used)
        tmo = 60 if not thorough else 300

        def work(job):
            row, kp, q1, q2, msgs = job
            r1 = sx.portfolio(q1, tmo, ("z3",))[1][0] if q1 else None
            r2 = sx.portfolio(q2, tmo, ("z3",))[1][0]
            return job, r1, r2
        t0 = time.time()
        with cf.ThreadPoolExecutor(ctx.jobs) as pool:
            results = list(pool.map(work, jobs))
        n_q = 0
        panic_unsat = tuple_unsat = 0
        replays_left = {"no-panic": 3, "ranges+rfc-equality": 3}
        skipped = {"no-panic": [], "ranges+rfc-equality": []}
        for (row, kp, q1, q2, msgs), r1, r2 in sorted(results, key=lambda x: x[0][1]):
            for what, r in (("no-panic", r1), ("ranges+rfc-equality", r2)):
                if r is None:
                    panic_unsat += 1      # no panic path at all survived interval simplification
                    continue
                n_q += 1
                if r.status == "unsat":
                    if what == "no-panic":
                        panic_unsat += 1
                    else:
                        tuple_unsat += 1
                    continue
                name = "%s/tuple/%s/K'=%d[%s]" % (prefix, what, kp, tag)
                if r.status != "sat":
                    rep.inconclusive(name, "%s %s" % (r.status, r.raw[-200:]), r.time_s, "smt")
                    continue
                x = r.model.get("X")
                if replays_left[what] <= 0:
                    skipped[what].append((kp, x))       # same defect class on a larger block: not replayed (native runs are slow)
                    continue
                replays_left[what] -= 1
                if what == "no-panic":
                    if x >= kp:
                        nat = replay.both(["repair", kp, 1, x - kp, 1])
                    else:
                        nat = replay.both(["encode-block", 1, "00" * kp])
                    repro = [k for k, v in nat.items() if v.startswith("panic")]
                    if repro:
                        rep.violated(name, "tuple-panic K'=%d X=%d" % (kp, x),
                                     "producing the symbol with internal id %d of a K'=%d block panics natively in %s: %s" % (x, kp, repro, nat[repro[0]]),
                                     {"kind": "tuple-panic", "K": kp, "X": x, "native": nat, "panic_paths": msgs}, r.time_s, "smt")
                    else:
                        rep.inconclusive(name, "model X=%d does not panic natively: %s" % (x, nat), r.time_s, "smt")
                else:
                    # the abstract model leaves V0..V3 and xor uninterpreted: confirm natively, otherwise refine bit-precisely
                    p_ = rfc.Params(kp)

                    def native_differs(xv):
                        out = native.both(["tuple", xv, p_.W, p_.J, p_.P1])
                        want = list(rfc.tuple_(p_, xv))
                        bad_ = [k for k, v in out.items() if v.split()[1:] != [str(t) for t in want]]
                        return bad_, out, want
                    bad_, out, want = native_differs(x)
                    how = "abstract model"
                    if not bad_:
                        xr, st = refine_tuple_bv(ex.mir, kp, tmo)
                        how = "bit-precise refinement (concrete V0..V3, real xor)"
                        if st == "unsat":
                            rep.held(name, "abstract query had a spurious model; proved bit-precisely with the concrete tables", r.time_s, "smt/refined-bv")
                            tuple_unsat += 1
                            continue
                        if st != "sat":
                            rep.inconclusive(name, "abstract model X=%d does not reproduce natively and the bit-precise query gave %s" % (x, st), r.time_s, "smt")
                            continue
                        x = xr
                        bad_, out, want = native_differs(x)
                    if bad_:
                        rep.violated(name, "tuple-mismatch K'=%d" % kp,
                                     "intermediate_tuple(X=%d) of a K'=%d block is %s natively, RFC Tuple[K',X] is %s (found by %s)" % (x, kp, out[bad_[0]], want, how),
                                     {"kind": "tuple-mismatch", "K": kp, "X": x, "W": p_.W, "J": p_.J, "P1": p_.P1, "rfc_tuple": want, "native": out}, r.time_s, "smt")
                    else:
                        rep.inconclusive(name, "bit-precise model X=%d does not reproduce natively: %s vs %s" % (x, out, want), r.time_s, "smt")
        dt = time.time() - t0
        for what, lst in skipped.items():
            if lst:
                rep.coverage.setdefault("further_rows_with_solver_models_not_replayed", {})["%s[%s]" % (what, tag)] = lst[:40]
        rep.held("%s/tuple/no-panic/all-%d-rows[%s]" % (prefix, nrows, tag), "%d rows unsat" % panic_unsat, dt / 2, "smt/z3", rows_unsat=panic_unsat) if panic_unsat == nrows else None
        rep.held("%s/tuple/ranges+rfc-equality/all-%d-rows[%s]" % (prefix, nrows, tag), "%d rows unsat" % tuple_unsat, dt / 2, "smt/z3", rows_unsat=tuple_unsat) if tuple_unsat == nrows else None
        rep.coverage.setdefault("smt_queries", 0)
        rep.coverage["smt_queries"] += n_q


def run(ctx):
    rep = ctx.report
    thorough = ctx.tier == "thorough"
    rep.bounds = {"K": "symbolic over 0..=56403 (and > 56403 for the refusal)", "rows": "all 477",
                  "internal symbol id X": "symbolic over 0 .. 2^24 + K' per row (every ISI reachable from a 24-bit ESI)",
                  "overflow-check settings": "MIR dumped with -C overflow-checks=on and =off",
                  "enc_indices (Kani)": "symbolic row x arbitrary in-range tuple, unwind 32 (>= 30 LT steps, >= max prime gap P1-P+1; unwinding assertions on)"}
    rep.assumptions = ["V0..V3 look-ups are uninterpreted functions in the SMT queries (their *contents* are compared "
                       "with the pinned tables concretely); xor is an uninterpreted function with congruence",
                       "pinned tables /verif/oracle/rfc6330_tables.json stand in for the RFC's printed tables",
                       "Kani harness c15_enc_indices_in_range assumes the tuple ranges that the E2 obligations establish"]
    replay = Replay(ctx.scratch.path)
    Vn = ("V0", "V1", "V2", "V3")
    gap = max(rfc.P1S[i] - (r[0] + r[2] + r[3] - r[4]) for i, r in enumerate(rfc.TABLE2))
    rep.bounds["enc_indices (Kani)"] = ("row index symbolic over all 477 rows x arbitrary in-range tuple; per-loop unwinding from the "
                                        "source: `for _ in 1..d` 31, `while b1 >= p` %d (largest prime gap P1-P of the pinned table + 3), "
                                        "`for _ in 1..d1` 4; unwinding assertions on; fallback global unwind 32" % (gap + 3))

    def kani_part():
        rules = [(r"enc_indices", r"^for _ in 1\.\.d\b", 31), (r"enc_indices", r"^while b1 >= p", gap + 3),
                 (r"enc_indices", r"^for _ in 1\.\.d1\b", 4)]
        for da in ((True, False) if thorough else (True,)):
            ov = Overlay(ctx.scratch.path, "ov_da%d" % da, std=True, debug_assertions=da)
            gen = ""
            # c15_tuple_ranges decides the tuple ranges with Kani, independently of the MIR executor (which may meet a construct it has no model for)
            hs = ["c15_enc_indices_any_row", "c15_tuple_ranges"]
            if thorough:
                gen = "\n".join("    #[kani::proof]\n    #[kani::unwind(32)]\n    fn c15_enc_row%03d() { enc_indices_row(%d); }" % (r, r)
                                for r in range(477))
                hs += ["c15_enc_row%03d" % r for r in range(477)]
            ov.append_file("systematic_constants.rs", "c15_systematic_constants.rs", {"//@ENC_ROW_HARNESSES@": gen})
            uw, desc = unwindset_for(ov, "c15_enc_indices_any_row", rules)
            rep.coverage.setdefault("kani_unwindset", desc)
            run_harnesses(ctx, ov, hs, timeout_s=2400 if thorough else 900, mem_gb=16, replay_kind="c15-kani",
                          cbmc_args=(["--unwindset", uw] if uw else None), jobs=max(2, ctx.jobs // 2))
    import threading
    kani_thread = threading.Thread(target=kani_part)
    kani_thread.start()
    for oc in (True, False):
        sx.reset()
        tag = "overflow-checks=%s" % ("on" if oc else "off")
        mir = Mir(dump_mir(ctx.scratch.path, overflow_checks=oc))
        ex = Exec(mir, symbolic_tables=Vn)
        # --- A. constant tables of the current source == pinned tables; row facts (concrete, all rows)
        t0 = time.time()
        t2 = table_from_mir(ex, "SYSTEMATIC_INDICES_AND_PARAMETERS")
        p1t = table_from_mir(ex, "P1_TABLE")
        problems = []
        if [tuple(r) for r in t2] != list(rfc.TABLE2):
            bad = [i for i, r in enumerate(t2) if i >= len(rfc.TABLE2) or tuple(r) != rfc.TABLE2[i]][:3]
            problems.append("Table 2 differs from the pinned RFC values at rows %s" % bad)
        if [r[1] for r in p1t] != list(rfc.P1S) or [r[0] for r in p1t] != [r[0] for r in t2]:
            problems.append("P1 table differs from pinned / misaligned with Table 2")
        for n in range(4):
            if table_from_mir(ex, "V%d" % n) != rfc.V[n]:
                problems.append("V%d differs from the pinned RFC values" % n)
        for i, (kp, j, s, h, w) in enumerate(t2):
            L, P = kp + s + h, kp + s + h - w
            q = P
            while not rfc.is_prime(q):
                q += 1
            if not (rfc.is_prime(s) and rfc.is_prime(w) and i < len(p1t) and p1t[i][1] == q and w - s >= 1 and P >= h >= 2 and L < 65536
                    and (i == 0 or kp > t2[i - 1][0])):
                problems.append("row %d (K'=%d) violates a consistency fact" % (i, kp))
        if t2 and t2[-1][0] != 56403:
            problems.append("largest K' is not 56403")
        name = "c15/tables-consistent-and-pinned[%s]" % tag
        if problems:
            rep.violated(name, "tables", "; ".join(problems[:4]), {"kind": "tables", "problems": problems[:20]}, time.time() - t0, "concrete")
        else:
            rep.held(name, "477 rows: S,W prime; P1 least prime >= P; B>=1; P>=H>=2; L<65536; K' increasing; == pinned", time.time() - t0, "concrete/exhaustive")
        # --- B. look-up functions, K symbolic
        K = sx.var("K", 32)
        for fn in (LOOKUPS if (oc or thorough) else LOOKUPS[:1]):
            outs = ex.call(fn, [Int(K, "u32")])
            rets = [o for o in outs if o.kind == "ret"]
            panics = [o for o in outs if o.kind != "ret"]
            col = oracle_col(fn)
            inrange = sx.le(K, sx.const(56403))
            val = rets[-1].value.t
            for o in reversed(rets[:-1]):
                val = sx.ite(o.cond, o.value.t, val)
            returned = sx.or_(*[o.cond for o in rets])
            # oracle in 'row interval' form: K'_{i-1} < K <= K'_i  =>  value == col(i)
            spec = []
            for i, r in enumerate(rfc.TABLE2):
                lo = rfc.TABLE2[i - 1][0] + 1 if i else 0
                spec.append(sx.and_(sx.le(sx.const(lo), K), sx.le(K, sx.const(r[0])), sx.eq(val, sx.const(col(i)))))
            discharge(ctx, "c15/lookup/%s=row-of-smallest-K'>=K[%s]" % (fn, tag),
                      [inrange, sx.or_(sx.not_(returned), sx.not_(sx.or_(*spec)))], ["K"],
                      replay=lambda m: {"inputs": {"K": m.get("K")}, "reproduced_in": ["table-lookup (MIR of current source)"]},
                      key_of=lambda r: "lookup", kind="lookup")
            discharge(ctx, "c15/lookup/%s-refuses-K>56403[%s]" % (fn, tag), [sx.not_(inrange), returned], ["K"],
                      replay=lambda m: None, kind="lookup")
        rep.functions = sorted(set(rep.functions) | ex.functions_executed)
        check_tuples(ctx, ex, t2, p1t, tag, replay)
    # --- D. Kani: Enc[] index generation (started first, runs in a thread next to the SMT queries)
    kani_thread.join()
    rep.coverage["exhaustive"] = True
    rep.outside = ["equality of the printed RFC tables with the pinned copies (DESIGN §6)"]


def replay(path):
    import json
    from vlib.common import Scratch
    obj = json.load(open(path))
    r = Replay(Scratch("replay").path)
    if obj.get("kind") == "tuple-panic":
        kp, x = obj["K"], obj["X"]
        print(r.both(["repair", kp, 1, x - kp, 1]) if x >= kp else r.both(["encode-block", 1, "00" * kp]))
    else:
        print(json.dumps(obj, indent=1)[:2000])
    return 0
