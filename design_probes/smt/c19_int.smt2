(set-logic ALL)
(declare-const F Int) (declare-const T Int) (declare-const Z Int)
(declare-const q1 Int) (declare-const r1 Int) (declare-const q2 Int) (declare-const r2 Int)
(assert (and (<= 0 F) (<= F 942574504275) (<= 1 T) (<= T 65535) (<= 1 Z) (<= Z 255)))
; division lemma F = q1*T + r1
(assert (and (= F (+ (* q1 T) r1)) (<= 0 r1) (< r1 T) (<= 0 q1)))
(define-fun c1 () Int (ite (= r1 0) q1 (+ q1 1)))
(assert (and (= c1 (+ (* q2 Z) r2)) (<= 0 r2) (< r2 Z) (<= 0 q2)))
(define-fun c2 () Int (ite (= r2 0) q2 (+ q2 1)))
; impl (fixed): accept iff c2 <= 56403 ; spec: F <= 56403*Z*T
(assert (not (= (<= c2 56403) (<= F (* 56403 Z T)))))
(check-sat)
