import re, time, z3, sys
src=open('/repo/src/systematic_constants.rs').read()
tab=src[src.index('SYSTEMATIC_INDICES_AND_PARAMETERS'):src.index('const P1_TABLE')]
rows=[tuple(map(int,m)) for m in re.findall(r'\((\d+), (\d+), (\d+), (\d+), (\d+)\)',tab)]
assert len(rows)==477
t0=time.time()
found=[]
X=z3.BitVec('X',32)
n=int(sys.argv[1]) if len(sys.argv)>1 else 477
for (kp,J,S,H,W) in rows[:n]:
    A=53591+J*997
    if A%2==0: A+=1
    B=10267*(J+1)
    s=z3.SolverFor('QF_BV')
    y=z3.BitVecVal(B,32)+X*z3.BitVecVal(A,32)
    s.add(z3.ULT(X,(1<<24)+kp), z3.UGE(y,(1<<32)-2))
    while s.check()==z3.sat:
        xv=s.model()[X].as_long()
        found.append((kp,J,xv,(B+xv*A)%(1<<32)))
        s.add(X!=xv)
print(found, 'rows',n,'time', round(time.time()-t0,2))
chk=[]
for (kp,J,S,H,W) in rows[:n]:
    A=53591+J*997
    if A%2==0: A+=1
    B=10267*(J+1)
    inv=pow(A,-1,1<<32)
    for yv in ((1<<32)-1,(1<<32)-2):
        xv=((yv-B)*inv)%(1<<32)
        if xv<(1<<24)+kp: chk.append((kp,J,xv,yv))
print(sorted(chk)==sorted(found), chk)
