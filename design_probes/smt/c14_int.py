import re, sys, time, z3
sc=open('/repo/src/systematic_constants.rs').read()
t2=[tuple(map(int,m)) for m in re.findall(r'\((\d+), (\d+), (\d+), (\d+), (\d+)\)',sc[sc.index('SYSTEMATIC_INDICES'):sc.index('const P1_TABLE')])]
KP=[r[0] for r in t2]
NMAX=int(sys.argv[1]); FIXED=(len(sys.argv)>2 and sys.argv[2]=='fixed')
s=z3.Solver()
cnt=[0]
def fresh(n):
    cnt[0]+=1; return z3.Int('%s_%d'%(n,cnt[0]))
_dc={}
def div(n,d):   # d>0 assumed by caller; returns q, r  (hash-consed on syntactic operands)
    n=z3.simplify(n) if not isinstance(n,int) else z3.IntVal(n); d=z3.simplify(d) if not isinstance(d,int) else z3.IntVal(d)
    key=(n.sexpr(),d.sexpr())
    if key in _dc: return _dc[key]
    q=fresh('q'); r=fresh('r'); s.add(n==q*d+r, r>=0, r<d, q>=0); _dc[key]=(q,r); return q,r
def cdiv(n,d):
    q,r=div(n,d); return z3.If(r==0,q,q+1)
_tc={}
def trunc(x,w):
    x=z3.simplify(x); key=(x.sexpr(),w)
    if key in _tc: return _tc[key]
    t=fresh('t'); k=fresh('k'); s.add(x==t+k*(2**w), t>=0, t<2**w, k>=0); _tc[key]=t; return t
F=z3.Int('F'); P=z3.Int('P'); WS=z3.Int('WS')
s.add(F>=1, F<=942574504275, P>=1, P<=65535, WS>=0, WS<2**64)
big=P>=64
Al=z3.If(big,8,1); SS=z3.If(big,8,1)
q,r=div(P,Al); T=P-r
s.add(T>=1)
# ---- implementation semantics (with u32 narrowing), as in base.rs
def idc_impl(n,d): return trunc(cdiv(n,d),32)      # int_div_ceil
kt_i=idc_impl(F,T)
nmax,_=div(T,SS*Al)
s.add(nmax>=1, nmax<=NMAX)
def kl_impl(n):
    x=idc_impl(T,Al*n)
    qq,_=div(WS,Al*x)
    lim = qq if FIXED else trunc(qq,32)
    res=z3.IntVal(-1)   # -1 == unreachable!() panic  (fixed: 0 == infeasible)
    if FIXED: res=z3.IntVal(0)
    for kp in KP: res=z3.If(kp<=lim,kp,res)   # ascending, last match wins = largest
    return res
klmax_i=kl_impl(nmax)
panic=[klmax_i<0]
Z_i=idc_impl(kt_i,z3.If(klmax_i>0,klmax_i,1))
# N loop
N_i=z3.IntVal(0); done=z3.BoolVal(False); per=idc_impl(kt_i,z3.If(Z_i>0,Z_i,1))
for n in range(1,NMAX+1):
    kln=kl_impl(z3.IntVal(n))
    active=z3.And(z3.Not(done), n<=nmax)
    panic.append(z3.And(active,kln<0))
    hit=z3.And(active, per<=kln)
    N_i=z3.If(active, n, N_i)
    done=z3.Or(done,hit)
# ---- RFC oracle in unbounded ints
kt_o=cdiv(F,T)
def kl_o(n):
    x=cdiv(T,Al*n); lim,_=div(WS,Al*x)
    res=z3.IntVal(0)
    for kp in KP: res=z3.If(kp<=lim,kp,res)
    return res
klmax_o=kl_o(nmax)
valid=z3.And(klmax_o>=10)
Z_o=cdiv(kt_o,z3.If(klmax_o>0,klmax_o,1))
valid=z3.And(valid,Z_o<=255)
N_o=z3.IntVal(0); done=z3.BoolVal(False); per_o=cdiv(kt_o,z3.If(Z_o>0,Z_o,1))
for n in range(1,NMAX+1):
    hit=z3.And(z3.Not(done), n<=nmax, per_o<=kl_o(z3.IntVal(n)))
    N_o=z3.If(hit,n,N_o); done=z3.Or(done,hit)
s.add(valid)
s.add(z3.Or(z3.Or(panic), Z_i!=Z_o, N_i!=N_o))
t0=time.time(); r=s.check(); print('nmax<=',NMAX,'fixed' if FIXED else 'orig',r,round(time.time()-t0,1),'s')
if r==z3.sat:
    m=s.model(); print({str(v):m.eval(v) for v in (F,P,WS)}, 'Z_i',m.eval(Z_i),'Z_o',m.eval(Z_o),'N_i',m.eval(N_i),'N_o',m.eval(N_o),'klmax_i',m.eval(klmax_i))
