import re, sys, time, z3, subprocess
K=int(sys.argv[1]); 
# tables
rng=open('/repo/src/rng.rs').read()
def tab(name):
    body=rng[rng.index('const %s: [u32; 256] = ['%name):]
    body=body[body.index('[',body.index('=')):body.index('];')]
    return [int(x) for x in re.findall(r'\d+',body)][0:256]
V=[tab('V0'),tab('V1'),tab('V2'),tab('V3')]
sc=open('/repo/src/systematic_constants.rs').read()
t2=[tuple(map(int,m)) for m in re.findall(r'\((\d+), (\d+), (\d+), (\d+), (\d+)\)',sc[sc.index('SYSTEMATIC_INDICES'):sc.index('const P1_TABLE')])]
p1t=[tuple(map(int,m)) for m in re.findall(r'\((\d+), (\d+)\)',sc[sc.index('const P1_TABLE'):sc.index('pub fn extended')])]
row=[r for r in t2 if r[0]>=K][0]; Kp,J,S,H,W=row; P1=[p for (k,p) in p1t if k>=K][0]; L=Kp+S+H; P=L-W
def rand(y,i,m):
    return (V[0][(y+i)%256]^V[1][((y>>8)+i)%256]^V[2][((y>>16)+i)%256]^V[3][((y>>24)+i)%256])%m
f=[0,5243,529531,704294,791675,844104,879057,904023,922747,937311,948962,958494,966438,973160,978921,983914,988283,992138,995565,998631,1001391,1003887,1006157,1008229,1010129,1011876,1013490,1014983,1016370,1017662,1048576]
def deg(v): 
    for d in range(1,31):
        if v<f[d]: return min(d,W-2)
def tup(X):
    A=53591+J*997
    if A%2==0:A+=1
    B=10267*(J+1); y=(B+X*A)%(1<<32); v=rand(y,0,1<<20); d=deg(v); a=1+rand(y,1,W-1); b=rand(y,2,W)
    d1=2+rand(X,3,2) if d<4 else 2
    a1=1+rand(X,4,P1-1); b1=rand(X,5,P1); return d,a,b,d1,a1,b1
def enc_idx(X):
    d,a,b,d1,a1,b1=tup(X); out=[b]
    for _ in range(1,d): b=(b+a)%W; out.append(b)
    while b1>=P: b1=(b1+a1)%P1
    out.append(W+b1)
    for _ in range(1,d1):
        b1=(b1+a1)%P1
        while b1>=P: b1=(b1+a1)%P1
        out.append(W+b1)
    return out
ops=subprocess.run(['PLAN_DUMP_BIN',str(K),'x'],capture_output=True,text=True).stdout.splitlines()[1:]
def gfmulc(c,x):
    # c constant, x BV8
    acc=z3.BitVecVal(0,8); cc=c
    for i in range(8):
        bit=z3.Extract(i,i,x)
        acc=acc ^ z3.If(bit==1, z3.BitVecVal(cc,8), z3.BitVecVal(0,8))
        cc<<=1
        if cc&0x100: cc^=0x11D
    return acc
t0=time.time()
src=[z3.BitVec('s%d'%i,8) for i in range(K)]
D=[z3.BitVecVal(0,8)]*(S+H)+src+[z3.BitVecVal(0,8)]*(Kp-K)
order=None
for o in ops:
    m=re.match(r'AddAssign \{ dest: (\d+), src: (\d+) \}',o)
    if m: D[int(m.group(1))]=D[int(m.group(1))]^D[int(m.group(2))]; continue
    m=re.match(r'MulAssign \{ dest: (\d+), scalar: Octet \{ value: (\d+) \} \}',o)
    if m: D[int(m.group(1))]=gfmulc(int(m.group(2)),D[int(m.group(1))]); continue
    m=re.match(r'FMA \{ dest: (\d+), src: (\d+), scalar: Octet \{ value: (\d+) \} \}',o)
    if m: D[int(m.group(1))]=D[int(m.group(1))]^gfmulc(int(m.group(3)),D[int(m.group(2))]); continue
    m=re.match(r'Reorder \{ order: \[(.*)\] \}',o)
    if m: order=[int(x) for x in m.group(1).split(',')]; continue
C=[D[order[i]] for i in range(L)]
bad=[]
for isi in range(Kp):
    e=z3.BitVecVal(0,8)
    for j in enc_idx(isi): e=e^C[j]
    bad.append(e != (src[isi] if isi<K else z3.BitVecVal(0,8)))

# LDPC rows (RFC 5.3.3.3)
B_=W-S
ld=[z3.BitVecVal(0,8)]*S
ld=[C[B_+i] for i in range(S)]
for i in range(B_):
    a=1+i//S; b=i%S
    ld[b]=ld[b]^C[i]; b=(b+a)%S; ld[b]=ld[b]^C[i]; b=(b+a)%S; ld[b]=ld[b]^C[i]
for i in range(S):
    ld[i]=ld[i]^C[W+(i%P)]^C[W+((i+1)%P)]
for i in range(S): bad.append(ld[i]!=z3.BitVecVal(0,8))
# HDPC rows: G_HDPC = MT x GAMMA
def gm(a,b):
    r=0
    for i in range(8):
        if (b>>i)&1: r^=a
        a<<=1
        if a&0x100: a^=0x11D
    return r
alpha=[1]
for i in range(1,256): alpha.append(gm(alpha[-1],2))
n=Kp+S
MT=[[0]*n for _ in range(H)]
for j in range(n-1):
    r6=rand(j+1,6,H); r7=rand(j+1,7,H-1)
    MT[r6][j]=1; MT[(r6+r7+1)%H][j]=1
for i in range(H): MT[i][n-1]=alpha[i]
G=[[0]*n for _ in range(H)]
for i in range(H):
    for j in range(n):
        acc=0
        for k2 in range(j,n):   # GAMMA[k][j]=alpha^(k-j) for k>=j
            if MT[i][k2]: acc^=gm(MT[i][k2],alpha[(k2-j)%255])
        G[i][j]=acc
for i in range(H):
    e=C[n+i]
    for j in range(n):
        if G[i][j]: e=e^gfmulc(G[i][j],C[j])
    bad.append(e!=z3.BitVecVal(0,8))
s=z3.SolverFor('QF_BV'); s.add(z3.Or(bad))
print('K',K,'Kp',Kp,'ops',len(ops),'build',round(time.time()-t0,1)); t1=time.time()
print(s.check(), 'solve', round(time.time()-t1,1))
