(set-logic ALL)
(declare-const F (_ BitVec 64)) (declare-const T (_ BitVec 16)) (declare-const Z (_ BitVec 8))
(define-fun T64 () (_ BitVec 64) ((_ zero_extend 48) T))
(define-fun Z64 () (_ BitVec 64) ((_ zero_extend 56) Z))
(assert (bvule F #x000000DB75D5E393)) ; 942574504275
(assert (not (= T #x0000))) (assert (not (= Z #x00)))
(define-fun cdiv ((a (_ BitVec 64)) (b (_ BitVec 64))) (_ BitVec 64) (ite (= (bvurem a b) #x0000000000000000) (bvudiv a b) (bvadd (bvudiv a b) #x0000000000000001)))
(define-fun c2 () (_ BitVec 64) (cdiv (cdiv F T64) Z64))
(define-fun impl_ok () Bool (bvule c2 #x000000000000DC53)) ; 56403
(define-fun spec_ok () Bool (bvule F (bvmul #x000000000000DC53 (bvmul Z64 T64))))
(assert (not (= impl_ok spec_ok)))
(check-sat)
