import re, sys, time, z3
sc=open('/repo/src/systematic_constants.rs').read()
t2=[tuple(map(int,m)) for m in re.findall(r'\((\d+), (\d+), (\d+), (\d+), (\d+)\)',sc[sc.index('SYSTEMATIC_INDICES'):sc.index('const P1_TABLE')])]
KP=[r[0] for r in t2]
FIXED=(len(sys.argv)>1 and sys.argv[1]=='fixed')
s=z3.Solver(); cnt=[0]
def fresh(n):
    cnt[0]+=1; return z3.Int('%s_%d'%(n,cnt[0]))
def div(n,d):
    q=fresh('q'); r=fresh('r'); s.add(n==q*d+r, r>=0, r<d, q>=0); return q,r
def trunc(x,w):
    t=fresh('t'); k=fresh('k'); s.add(x==t+k*(2**w), t>=0, t<2**w, k>=0); return t
T=z3.Int('T'); Al=z3.Int('Al'); n=z3.Int('n'); WS=z3.Int('WS')
s.add(T>=1,T<=65535, z3.Or(Al==1,Al==8), n>=1, n<=65535, WS>=0, WS<2**64, T%Al==0)
# shared sub-terms: x = ceil(T/(Al*n)) computed by int_div_ceil (contract O1: exact since < 2^32)
q,r=div(T,Al*n); x=z3.If(r==0,q,q+1)
lim,_=div(WS,Al*x)
lim_impl = lim if FIXED else trunc(lim,32)
impl=z3.IntVal(0 if FIXED else -1)
for kp in KP: impl=z3.If(kp<=lim_impl,kp,impl)
orc=z3.IntVal(0)
for kp in KP: orc=z3.If(kp<=lim,kp,orc)
# obligation: impl == oracle whenever oracle feasible (>0); and (fixed) impl==0 when infeasible
s.add(z3.Not(z3.And(z3.Implies(orc>0, impl==orc), z3.Implies(orc==0, impl==(0 if FIXED else -1)))))
t0=time.time(); r_=s.check(); print('fixed' if FIXED else 'orig', r_, round(time.time()-t0,2))
if r_==z3.sat:
    m=s.model(); print({str(v):m.eval(v) for v in (T,Al,n,WS)}, 'impl',m.eval(impl),'oracle',m.eval(orc))
