import re, sys, time, subprocess, cvc5
from cvc5 import Kind
K=int(sys.argv[1]); 
# tables
rng=open('/repo/src/rng.rs').read()
def tab(name):
    body=rng[rng.index('const %s: [u32; 256] = ['%name):]
    body=body[body.index('[',body.index('=')):body.index('];')]
    return [int(x) for x in re.findall(r'\d+',body)][0:256]
V=[tab('V0'),tab('V1'),tab('V2'),tab('V3')]
sc=open('/repo/src/systematic_constants.rs').read()
t2=[tuple(map(int,m)) for m in re.findall(r'\((\d+), (\d+), (\d+), (\d+), (\d+)\)',sc[sc.index('SYSTEMATIC_INDICES'):sc.index('const P1_TABLE')])]
p1t=[tuple(map(int,m)) for m in re.findall(r'\((\d+), (\d+)\)',sc[sc.index('const P1_TABLE'):sc.index('pub fn extended')])]
row=[r for r in t2 if r[0]>=K][0]; Kp,J,S,H,W=row; P1=[p for (k,p) in p1t if k>=K][0]; L=Kp+S+H; P=L-W
def rand(y,i,m):
    return (V[0][(y+i)%256]^V[1][((y>>8)+i)%256]^V[2][((y>>16)+i)%256]^V[3][((y>>24)+i)%256])%m
f=[0,5243,529531,704294,791675,844104,879057,904023,922747,937311,948962,958494,966438,973160,978921,983914,988283,992138,995565,998631,1001391,1003887,1006157,1008229,1010129,1011876,1013490,1014983,1016370,1017662,1048576]
def deg(v): 
    for d in range(1,31):
        if v<f[d]: return min(d,W-2)
def tup(X):
    A=53591+J*997
    if A%2==0:A+=1
    B=10267*(J+1); y=(B+X*A)%(1<<32); v=rand(y,0,1<<20); d=deg(v); a=1+rand(y,1,W-1); b=rand(y,2,W)
    d1=2+rand(X,3,2) if d<4 else 2
    a1=1+rand(X,4,P1-1); b1=rand(X,5,P1); return d,a,b,d1,a1,b1
def enc_idx(X):
    d,a,b,d1,a1,b1=tup(X); out=[b]
    for _ in range(1,d): b=(b+a)%W; out.append(b)
    while b1>=P: b1=(b1+a1)%P1
    out.append(W+b1)
    for _ in range(1,d1):
        b1=(b1+a1)%P1
        while b1>=P: b1=(b1+a1)%P1
        out.append(W+b1)
    return out
ops=subprocess.run(['PLAN_DUMP_BIN',str(K),'x'],capture_output=True,text=True).stdout.splitlines()[1:]
ops=subprocess.run(['PLAN_DUMP_BIN',str(K),'x'],capture_output=True,text=True).stdout.splitlines()[1:]

slv=cvc5.Solver(); slv.setLogic("QF_FF"); slv.setOption("produce-models","true")
F=slv.mkFiniteFieldSort("2"); ZERO=slv.mkFiniteFieldElem("0",F); ONE=slv.mkFiniteFieldElem("1",F)
def fadd(a,b):
    if a is ZERO: return b
    if b is ZERO: return a
    return slv.mkTerm(Kind.FINITE_FIELD_ADD,a,b)
def bxor(x,y): return [fadd(x[i],y[i]) for i in range(8)]
def gm(a,b):
    r=0
    for i in range(8):
        if (b>>i)&1: r^=a
        a<<=1
        if a&0x100: a^=0x11D
    return r
def gfmulc(c,x):
    out=[ZERO]*8
    for i in range(8):
        col=gm(c,1<<i)
        for k in range(8):
            if (col>>k)&1: out[k]=fadd(out[k],x[i])
    return out
Z8=[ZERO]*8
_cnt=[0]
def name(x):
    out=[]
    for t in x:
        if t is ZERO: out.append(ZERO); continue
        _cnt[0]+=1; v=slv.mkConst(F,'t%d'%_cnt[0]); slv.assertFormula(slv.mkTerm(Kind.EQUAL,v,t)); out.append(v)
    return out
t0=time.time()
src=[[slv.mkConst(F,'s%d_%d'%(i,b)) for b in range(8)] for i in range(K)]
D=[Z8]*(S+H)+src+[Z8]*(Kp-K)
order=None
for o in ops:
    m=re.match(r'AddAssign \{ dest: (\d+), src: (\d+) \}',o)
    if m: D[int(m.group(1))]=name(bxor(D[int(m.group(1))],D[int(m.group(2))])); continue
    m=re.match(r'MulAssign \{ dest: (\d+), scalar: Octet \{ value: (\d+) \} \}',o)
    if m: D[int(m.group(1))]=name(gfmulc(int(m.group(2)),D[int(m.group(1))])); continue
    m=re.match(r'FMA \{ dest: (\d+), src: (\d+), scalar: Octet \{ value: (\d+) \} \}',o)
    if m: D[int(m.group(1))]=name(bxor(D[int(m.group(1))],gfmulc(int(m.group(3)),D[int(m.group(2))]))); continue
    m=re.match(r'Reorder \{ order: \[(.*)\] \}',o)
    if m: order=[int(x) for x in m.group(1).split(',')]; continue
C=[D[order[i]] for i in range(L)]
res=[]   # residual bytes that must be zero
for isi in range(Kp):
    e=Z8
    for j in enc_idx(isi): e=bxor(e,C[j])
    if isi<K: e=bxor(e,src[isi])
    res.append(e)
B_=W-S
ld=[C[B_+i] for i in range(S)]
for i in range(B_):
    a=1+i//S; b=i%S
    ld[b]=bxor(ld[b],C[i]); b=(b+a)%S; ld[b]=bxor(ld[b],C[i]); b=(b+a)%S; ld[b]=bxor(ld[b],C[i])
for i in range(S):
    ld[i]=bxor(bxor(ld[i],C[W+(i%P)]),C[W+((i+1)%P)])
res+=ld
alpha=[1]
for i in range(1,256): alpha.append(gm(alpha[-1],2))
n=Kp+S
MT=[[0]*n for _ in range(H)]
for j in range(n-1):
    r6=rand(j+1,6,H); r7=rand(j+1,7,H-1)
    MT[r6][j]=1; MT[(r6+r7+1)%H][j]=1
for i in range(H): MT[i][n-1]=alpha[i]
for i in range(H):
    e=C[n+i]
    for j in range(n):
        acc=0
        for k2 in range(j,n):
            if MT[i][k2]: acc^=gm(MT[i][k2],alpha[(k2-j)%255])
        if acc: e=bxor(e,gfmulc(acc,C[j]))
    res.append(e)
bits=[b for r in res for b in name(r) if b is not ZERO]

neq=[slv.mkTerm(Kind.NOT, slv.mkTerm(Kind.EQUAL,b,ZERO)) for b in bits]
slv.assertFormula(slv.mkTerm(Kind.OR,*neq) if len(neq)>1 else neq[0])
print('K',K,'Kp',Kp,'ops',len(ops),'residual bits',len(bits),'build',round(time.time()-t0,1)); t1=time.time()
r=slv.checkSat(); print(r,'solve',round(time.time()-t1,1))
