// appended to /repo/src/octets.rs in scratch overlay ov2 during design probing
#[cfg(kani)]
mod verif_probe {
    use super::*;
    extern crate std;

    fn gfmul(a: u8, b: u8) -> u8 {
        let mut acc: u16 = 0;
        let mut aa: u16 = a as u16;
        let mut i = 0;
        while i < 8 {
            if (b >> i) & 1 == 1 { acc ^= aa; }
            aa <<= 1;
            if aa & 0x100 != 0 { aa ^= 0x11D; }
            i += 1;
        }
        acc as u8
    }

    #[cfg(feature = "std")]
    fn pshufb128_model(a: core::arch::x86_64::__m128i, b: core::arch::x86_64::__m128i) -> core::arch::x86_64::__m128i {
        let a: [u8; 16] = unsafe { core::mem::transmute(a) };
        let b: [u8; 16] = unsafe { core::mem::transmute(b) };
        let mut r = [0u8; 16];
        let mut i = 0;
        while i < 16 {
            r[i] = if b[i] & 0x80 != 0 { 0 } else { a[(b[i] & 0x0F) as usize] };
            i += 1;
        }
        unsafe { core::mem::transmute(r) }
    }

    // concrete length (exact boxed allocation => OOB detected), symbolic contents and scalar
    #[cfg(feature = "std")]
    fn run_mul_ssse3<const LEN: usize>() {
        let mut d: std::boxed::Box<[u8; LEN]> = std::boxed::Box::new(kani::any());
        let d0 = *d;
        let c: u8 = kani::any();
        unsafe { mulassign_scalar_ssse3(&mut d[..], &Octet::new(c)); }
        let i: usize = kani::any();
        kani::assume(i < LEN);
        assert!(d[i] == gfmul(c, d0[i]));
    }

    #[cfg(feature = "std")]
    #[kani::proof]
    #[kani::unwind(40)]
    #[kani::stub(core::arch::x86_64::_mm_shuffle_epi8, pshufb128_model)]
    fn c11c_mul_ssse3_len37() { run_mul_ssse3::<37>(); }

    #[cfg(feature = "std")]
    fn run_add_avx2<const LEN: usize>() {
        let mut d: std::boxed::Box<[u8; LEN]> = std::boxed::Box::new(kani::any());
        let s: std::boxed::Box<[u8; LEN]> = std::boxed::Box::new(kani::any());
        let d0 = *d;
        unsafe { add_assign_avx2(&mut d[..], &s[..]); }
        let i: usize = kani::any();
        kani::assume(i < LEN);
        assert!(d[i] == d0[i] ^ s[i]);
    }

    #[cfg(feature = "std")]
    #[kani::proof]
    #[kani::unwind(80)]
    fn c11c_add_avx2_len77() { run_add_avx2::<77>(); }

    #[cfg(feature = "std")]
    fn run_add_avx512<const LEN: usize>() {
        let mut d: std::boxed::Box<[u8; LEN]> = std::boxed::Box::new(kani::any());
        let s: std::boxed::Box<[u8; LEN]> = std::boxed::Box::new(kani::any());
        let d0 = *d;
        unsafe { add_assign_avx512(&mut d[..], &s[..]); }
        let i: usize = kani::any();
        kani::assume(i < LEN);
        assert!(d[i] == d0[i] ^ s[i]);
    }

    #[cfg(feature = "std")]
    #[kani::proof]
    #[kani::unwind(150)]
    fn c11c_add_avx512_len141() { run_add_avx512::<141>(); }
}
