// appended to /repo/src/decoder.rs in scratch overlay ov6 during design probing
#[cfg(kani)]
mod verif_probe {
    use super::*;
    use crate::base::PayloadId;

    fn deliver(dec: &mut Decoder, sel: u8, b0: u8, b1: u8) -> Option<Vec<u8>> {
        // selector over arms with concrete ESIs
        if sel == 0 {
            dec.decode(EncodingPacket::new(PayloadId::new(0, 0), vec![b0]))
        } else {
            dec.decode(EncodingPacket::new(PayloadId::new(0, 1), vec![b1]))
        }
    }

    #[kani::proof]
    #[kani::unwind(8)]
    fn c08_sel3() {
        let b0: u8 = kani::any();
        let b1: u8 = kani::any();
        let config = ObjectTransmissionInformation::new(2, 1, 1, 1, 1);
        let mut dec = Decoder::new(config);
        let s1: u8 = kani::any(); let s2: u8 = kani::any(); let s3: u8 = kani::any();
        kani::assume(s1 < 2 && s2 < 2 && s3 < 2);
        let r1 = deliver(&mut dec, s1, b0, b1);
        assert!(r1.is_none());
        let r2 = deliver(&mut dec, s2, b0, b1);
        assert!(r2.is_some() == (s1 != s2));
        let r3 = deliver(&mut dec, s3, b0, b1);
        let complete = s1 != s2 || s3 != s1;
        assert!(r3.is_some() == complete);
        if let Some(v) = r3 { assert!(v.len() == 2 && v[0] == b0 && v[1] == b1); }
        core::mem::forget(dec);
    }
}
