// appended to /repo/src/encoder.rs in scratch overlay ov3 during design probing
#[cfg(kani)]
mod verif_probe {
    use super::*;

    // Option 1: run the real solver inside CBMC with concrete K=1 and one symbolic data byte
    #[kani::proof]
    #[kani::unwind(600)]
    fn opt1_encoder_k1() {
        let b: u8 = kani::any();
        let syms = vec![Symbol::new(vec![b])];
        let (c, _) = gen_intermediate_symbols(&syms, 1, SPARSE_MATRIX_THRESHOLD);
        let c = c.unwrap();
        let tuple = intermediate_tuple(0, 17, 254, 11);
        let mut out = vec![0u8; 1];
        enc_into(&mut out, 1, &c, tuple);
        assert!(out[0] == b);
    }
}
