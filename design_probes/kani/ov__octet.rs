// appended to /repo/src/octet.rs in scratch overlay ov during design probing
#[cfg(kani)]
mod verif_probe {
    use super::*;

    fn polymul(a: u8, b: u8) -> u8 {
        let mut acc: u16 = 0;
        let mut aa: u16 = a as u16;
        let mut i = 0;
        while i < 8 {
            if (b >> i) & 1 == 1 { acc ^= aa; }
            aa <<= 1;
            if aa & 0x100 != 0 { aa ^= 0x11D; }
            i += 1;
        }
        acc as u8
    }

    #[kani::proof]
    #[kani::unwind(9)]
    fn c10_mul_pairs() {
        let a: u8 = kani::any();
        let b: u8 = kani::any();
        let r = polymul(a, b);
        assert!((Octet::new(a) * Octet::new(b)).byte() == r);
        assert!(OCTET_MUL[a as usize][b as usize] == r);
        let lo = OCTET_MUL_LOW_BITS[a as usize][(b & 0x0F) as usize];
        let hi = OCTET_MUL_HI_BITS[a as usize][(b >> 4) as usize];
        assert!(lo ^ hi == r);
        let mut f = Octet::new(kani::any());
        let f0 = f.byte();
        f.fma(&Octet::new(a), &Octet::new(b));
        assert!(f.byte() == f0 ^ r);
        if b != 0 {
            let q = Octet::new(a) / Octet::new(b);
            assert!(polymul(q.byte(), b) == a);
        }
    }

    #[kani::proof]
    #[kani::unwind(9)]
    fn c10_assoc() {
        let a: u8 = kani::any();
        let b: u8 = kani::any();
        let c: u8 = kani::any();
        let ab = &Octet::new(a) * &Octet::new(b);
        let bc = &Octet::new(b) * &Octet::new(c);
        assert!(&ab * &Octet::new(c) == &Octet::new(a) * &bc);
        let ac = &Octet::new(a) * &Octet::new(c);
        assert!(&Octet::new(a) * &(Octet::new(b) + Octet::new(c)) == ab + ac);
    }
}
