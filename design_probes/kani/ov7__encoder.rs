// appended to /repo/src/encoder.rs in scratch overlay ov7 during design probing
#[cfg(kani)]
mod verif_probe {
    use super::*;

    fn stub_generate(symbol_count: u16) -> SourceBlockEncodingPlan {
        SourceBlockEncodingPlan { operations: Vec::new(), source_symbol_count: symbol_count }
    }

    // RFC 4.4.1.2 reference layout: byte at (block b, symbol m, sub-block j, offset o)
    fn spec_byte(data: &[u8], f: usize, t: usize, z: usize, n: usize, al: usize, sbn: usize, esi: usize, pos: usize) -> u8 {
        let kt = (f + t - 1) / t;
        let kl = (kt + z - 1) / z; let ks = kt / z; let zl = kt - ks * z;
        let (k, start) = if sbn < zl { (kl, sbn * kl * t) } else { (ks, zl * kl * t + (sbn - zl) * ks * t) };
        let ta = t / al;
        let tl = (ta + n - 1) / n; let ts = ta / n; let nl = ta - ts * n;
        // locate sub-block j and offset within sub-symbol
        let mut j = 0; let mut acc = 0; let mut sub_start_in_block = 0;
        loop {
            let w = if j < nl { tl * al } else { ts * al };
            if pos < acc + w { 
                let idx = start + sub_start_in_block + esi * w + (pos - acc);
                return if idx < f { data[idx] } else { 0 };
            }
            acc += w; sub_start_in_block += w * k; j += 1;
        }
    }

    #[kani::proof]
    #[kani::unwind(12)]
    #[kani::stub(SourceBlockEncodingPlan::generate, stub_generate)]
    fn c05_layout_concrete_cfg() {
        let data: [u8; 9] = kani::any();
        let (f, t, z, n, al) = (9usize, 2usize, 2usize, 2usize, 1usize);
        let config = ObjectTransmissionInformation::new(f as u64, t as u16, z as u8, n as u16, al as u8);
        let enc = Encoder::new(&data, config);
        let packets = enc.get_encoded_packets(0);
        let pi: usize = kani::any();
        kani::assume(pi < packets.len());
        let p = &packets[pi];
        let pos: usize = kani::any();
        kani::assume(pos < t);
        assert!(p.data().len() == t);
        let sbn = p.payload_id().source_block_number() as usize;
        let esi = p.payload_id().encoding_symbol_id() as usize;
        assert!(p.data()[pos] == spec_byte(&data, f, t, z, n, al, sbn, esi, pos));
    }
}
