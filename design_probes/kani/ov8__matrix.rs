// appended to /repo/src/matrix.rs in scratch overlay ov8 during design probing
#[cfg(kani)]
mod verif_probe_dense {
    use super::*;

    #[kani::proof]
    #[kani::unwind(70)]
    fn c16_dense_only() {
        const H: usize = 3;
        const W: usize = 66;
        let mut d = DenseBinaryMatrix::new(H, W, 1);
        let mut r = [[false; W]; H];
        let mut k = 0;
        while k < 3 {
            let i: usize = kani::any();
            let j: usize = kani::any();
            kani::assume(i < H && j < W);
            d.set(i, j, Octet::one());
            r[i][j] = true;
            k += 1;
        }
        let a: usize = kani::any();
        let b: usize = kani::any();
        kani::assume(a < H && b < H && a != b);
        d.swap_rows(a, b);
        r.swap(a, b);
        d.add_assign_rows(a, b, 0);
        let mut c = 0;
        while c < W { r[a][c] ^= r[b][c]; c += 1; }
        let ci: usize = kani::any();
        let cj: usize = kani::any();
        kani::assume(ci < W && cj < W);
        d.swap_columns(ci, cj, 0);
        let mut row = 0;
        while row < H { let t = r[row][ci]; r[row][ci] = r[row][cj]; r[row][cj] = t; row += 1; }
        let qi: usize = kani::any();
        let qj: usize = kani::any();
        kani::assume(qi < H && qj < W);
        assert!((d.get(qi, qj) == Octet::one()) == r[qi][qj]);
        let s0: usize = kani::any();
        let e0: usize = kani::any();
        kani::assume(s0 <= e0 && e0 < W);
        let mut cnt = 0; let mut c = s0;
        while c < e0 { if r[qi][c] { cnt += 1; } c += 1; }
        assert!(d.count_ones(qi, s0, e0) == cnt);
    }
}
