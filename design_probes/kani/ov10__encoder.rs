// appended to /repo/src/encoder.rs in scratch overlay ov10 during design probing
#[cfg(kani)]
mod verif_probe {
    use super::*;

    // C18/C04 unit: directly constructed block encoder (K=2 -> K'=10, L=27, T=1), symbolic
    // intermediate symbols, symbolic repair start; window == singles, ids as specified.
    #[kani::proof]
    #[kani::unwind(30)]
    fn c18_window() {
        let c: [u8; 27] = kani::any();
        let mut slab = SymbolSlab::with_zeros(27, 1);
        let mut i = 0;
        while i < 27 { slab.get_mut(i)[0] = c[i]; i += 1; }
        let enc = SourceBlockEncoder {
            source_block_id: 3,
            source_symbols: vec![Symbol::new(vec![1]), Symbol::new(vec![2])],
            intermediate_symbols: slab,
        };
        let s: u32 = kani::any();
        kani::assume(s <= (1 << 24) - 1 - 2 - 1);
        let w = enc.repair_packets(s, 2);
        let single = enc.repair_packets(s + 1, 1);
        assert!(w.len() == 2 && single.len() == 1);
        assert!(w[0].payload_id().encoding_symbol_id() == 2 + s);
        assert!(w[1].payload_id().encoding_symbol_id() == 2 + s + 1);
        assert!(w[1].payload_id().source_block_number() == 3);
        assert!(w[1].data()[0] == single[0].data()[0]);
        // independent Enc over the symbolic symbols, from the real tuple
        let (d, a, mut b, d1, a1, mut b1) = intermediate_tuple(s + 10, 17, 254, 11);
        let mut x = c[b as usize];
        let mut k = 1;
        while k < d { b = (b + a) % 17; x ^= c[b as usize]; k += 1; }
        while b1 >= 10 { b1 = (b1 + a1) % 11; }
        x ^= c[(17 + b1) as usize];
        let mut k = 1;
        while k < d1 { b1 = (b1 + a1) % 11; while b1 >= 10 { b1 = (b1 + a1) % 11; } x ^= c[(17 + b1) as usize]; k += 1; }
        assert!(w[0].data()[0] == x);
        core::mem::forget(w); core::mem::forget(single); core::mem::forget(enc);
    }
}
