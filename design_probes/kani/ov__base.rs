// appended to /repo/src/base.rs in scratch overlay ov during design probing
#[cfg(kani)]
mod verif_probe {
    use super::*;

    #[kani::proof]
    fn payload_id_wire() {
        let sbn: u8 = kani::any();
        let esi: u32 = kani::any();
        kani::assume(esi < (1 << 24));
        let p = PayloadId::new(sbn, esi);
        let b = p.serialize();
        assert!(b[0] == sbn);
        assert!(b[1] == (esi >> 16) as u8);
        assert!(b[2] == (esi >> 8) as u8);
        assert!(b[3] == esi as u8);
        let q = PayloadId::deserialize(&b);
        assert!(q == p);
        let raw: [u8; 4] = kani::any();
        let r = PayloadId::deserialize(&raw);
        assert!(r.serialize() == raw);
    }
}

#[cfg(kani)]
mod verif_probe2 {
    use super::*;

    fn valid(f: u64, t: u16, z: u8, al: u8) -> bool {
        f <= 942574504275u64
            && t % (al as u16) == 0
            && (f as u128) <= 56403u128 * (z as u128) * (t as u128)
    }

    // C19: accepted => valid
    #[kani::proof]
    fn c19_accept_implies_valid() {
        let f: u64 = kani::any();
        let t: u16 = kani::any();
        let z: u8 = kani::any();
        let n: u16 = kani::any();
        let al: u8 = kani::any();
        kani::assume(t > 0 && z > 0 && al > 0);
        kani::assume(!valid(f, t, z, al));
        let _oti = ObjectTransmissionInformation::new(f, t, z, n, al);
        assert!(false, "C19_ACCEPTED_INVALID");
    }

    #[kani::proof]
    fn c19_valid_implies_accept() {
        let f: u64 = kani::any();
        let t: u16 = kani::any();
        let z: u8 = kani::any();
        let n: u16 = kani::any();
        let al: u8 = kani::any();
        kani::assume(t > 0 && z > 0 && al > 0);
        kani::assume(valid(f, t, z, al));
        let oti = ObjectTransmissionInformation::new(f, t, z, n, al);
        assert!(oti.transfer_length() == f && oti.symbol_size() == t && oti.source_blocks() == z && oti.sub_blocks() == n && oti.symbol_alignment() == al);
    }
}

#[cfg(kani)]
mod verif_probe3 {
    use super::*;
    use crate::systematic_constants::*;

    fn cdiv(a: u64, b: u64) -> u64 { a / b + if a % b != 0 { 1 } else { 0 } }
    fn valid_div(f: u64, t: u16, z: u8, al: u8) -> bool {
        f <= 942574504275u64
            && t % (al as u16) == 0
            && cdiv(cdiv(f, t as u64), z as u64) <= 56403
    }

    #[kani::proof]
    fn c19d_accept_implies_valid() {
        let f: u64 = kani::any();
        let t: u16 = kani::any();
        let z: u8 = kani::any();
        let n: u16 = kani::any();
        let al: u8 = kani::any();
        kani::assume(t > 0 && z > 0 && al > 0);
        kani::assume(!valid_div(f, t, z, al));
        let _oti = ObjectTransmissionInformation::new(f, t, z, n, al);
        assert!(false, "C19_ACCEPTED_INVALID");
    }

    #[kani::proof]
    fn c19d_valid_implies_accept() {
        let f: u64 = kani::any();
        let t: u16 = kani::any();
        let z: u8 = kani::any();
        let n: u16 = kani::any();
        let al: u8 = kani::any();
        kani::assume(t > 0 && z > 0 && al > 0);
        kani::assume(valid_div(f, t, z, al));
        let oti = ObjectTransmissionInformation::new(f, t, z, n, al);
        assert!(oti.transfer_length() == f && oti.symbol_size() == t && oti.source_blocks() == z && oti.sub_blocks() == n && oti.symbol_alignment() == al);
    }

    #[kani::proof]
    #[kani::unwind(478)]
    fn c15_tuple() {
        let idx: usize = kani::any();
        kani::assume(idx < 477);
        let (kp, j, _s, _h, w) = SYSTEMATIC_INDICES_AND_PARAMETERS[idx];
        let p1 = calculate_p1(kp);
        let x: u32 = kani::any();
        kani::assume(x < (1u32 << 24) + kp);
        let (d, a, b, d1, a1, b1) = intermediate_tuple(x, w, j, p1);
        assert!(1 <= d && d <= 30 && d <= w - 2);
        assert!(1 <= a && a < w);
        assert!(b < w);
        assert!(d1 == 2 || d1 == 3);
        assert!(1 <= a1 && a1 < p1);
        assert!(b1 < p1);
    }
}
