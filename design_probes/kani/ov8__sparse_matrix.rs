// appended to /repo/src/sparse_matrix.rs in scratch overlay ov8 during design probing
#[cfg(kani)]
mod verif_probe {
    use super::*;
    use crate::matrix::DenseBinaryMatrix;

    // 3 x 66 matrices, dense tail hint 1 (so width-65.. straddles), up to 3 symbolic ones,
    // then one symbolic row swap + one add_assign_rows, compare all cells.
    #[kani::proof]
    #[kani::unwind(70)]
    fn c16_small() {
        const H: usize = 3;
        const W: usize = 66;
        let mut d = DenseBinaryMatrix::new(H, W, 1);
        let mut s = SparseBinaryMatrix::new(H, W, 1);
        let mut r = [[false; W]; H];
        let mut k = 0;
        while k < 3 {
            let i: usize = kani::any();
            let j: usize = kani::any();
            kani::assume(i < H && j < W);
            d.set(i, j, Octet::one());
            s.set(i, j, Octet::one());
            r[i][j] = true;
            k += 1;
        }
        let a: usize = kani::any();
        let b: usize = kani::any();
        kani::assume(a < H && b < H && a != b);
        d.swap_rows(a, b);
        s.swap_rows(a, b);
        r.swap(a, b);
        d.add_assign_rows(a, b, 0);
        s.add_assign_rows(a, b, 0);
        let mut c = 0;
        while c < W { r[a][c] ^= r[b][c]; c += 1; }
        let qi: usize = kani::any();
        let qj: usize = kani::any();
        kani::assume(qi < H && qj < W);
        assert!((d.get(qi, qj) == Octet::one()) == r[qi][qj]);
        assert!((s.get(qi, qj) == Octet::one()) == r[qi][qj]);
    }
}
