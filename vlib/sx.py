"""Expression DAG over mathematical integers / booleans, with interval simplification, two SMT-LIB
printers (Int with division lemma; BV of uniform width) and solver drivers (engine E2, DESIGN §2).

Every integer term denotes an unbounded integer; machine semantics (wrapping, narrowing) are made
explicit by `mod` nodes inserted by the MIR executor.  Division/remainder by symbolic divisors are
printed as fresh q, r with   a = q*b + r  /\\  0 <= r < b   (hash-consed on the operands).
"""
import itertools
import os
import re
import subprocess
import tempfile
import time

INF = float("inf")


class Term:
    __slots__ = ("op", "args", "lo", "hi", "isbool", "_id", "_hash")
    _table = {}
    _counter = itertools.count()

    def __repr__(self):
        if self.op == "const":
            return str(self.args[0])
        if self.op == "var":
            return self.args[0]
        return "(%s %s)" % (self.op, " ".join(map(repr, self.args)))


def _mk(op, args, lo, hi, isbool=False):
    key = (op, tuple(a._id if isinstance(a, Term) else a for a in args))
    t = Term._table.get(key)
    if t is None:
        t = Term()
        t.op, t.args, t.lo, t.hi, t.isbool = op, tuple(args), lo, hi, isbool
        t._id = next(Term._counter)
        Term._table[key] = t
    return t


def reset():
    Term._table.clear()


def const(v):
    if isinstance(v, bool):
        return TRUE if v else FALSE
    return _mk("const", (int(v),), int(v), int(v))


def var(name, bits):
    return _mk("var", (name, bits), 0, (1 << bits) - 1)


def intvar(name, lo, hi):
    """An integer variable with explicit range (printed with its range constraint)."""
    return _mk("var", (name, ("range", lo, hi)), lo, hi)


def boolvar(name):
    return _mk("bvar", (name,), 0, 1, True)


TRUE = _mk("true", (), 1, 1, True)
FALSE = _mk("false", (), 0, 0, True)


def is_const(t):
    return t.op == "const"


def cval(t):
    return t.args[0]


def add(a, b):
    if is_const(a) and is_const(b):
        return const(cval(a) + cval(b))
    if is_const(a) and cval(a) == 0:
        return b
    if is_const(b) and cval(b) == 0:
        return a
    return _mk("+", (a, b), a.lo + b.lo, a.hi + b.hi)


def sub(a, b):
    if is_const(a) and is_const(b):
        return const(cval(a) - cval(b))
    if is_const(b) and cval(b) == 0:
        return a
    if a is b:
        return const(0)
    return _mk("-", (a, b), a.lo - b.hi, a.hi - b.lo)


def mul(a, b):
    if is_const(a) and is_const(b):
        return const(cval(a) * cval(b))
    for x, y in ((a, b), (b, a)):
        if is_const(x):
            if cval(x) == 0:
                return const(0)
            if cval(x) == 1:
                return y
    cands = [a.lo * b.lo, a.lo * b.hi, a.hi * b.lo, a.hi * b.hi]
    return _mk("*", (a, b), min(cands), max(cands))


def div(a, b):
    """Euclidean/truncating division for a >= 0, b > 0 (the executor guarantees b != 0 on the path)."""
    if is_const(a) and is_const(b) and cval(b) != 0:
        return const(cval(a) // cval(b))
    if is_const(b) and cval(b) == 1:
        return a
    if a.hi < b.lo:
        return const(0)
    lo = a.lo // b.hi if b.hi > 0 else 0
    hi = a.hi // max(b.lo, 1)
    return _mk("div", (a, b), max(lo, 0), hi)


def rem(a, b):
    if is_const(a) and is_const(b) and cval(b) != 0:
        return const(cval(a) % cval(b))
    if is_const(b) and cval(b) == 1:
        return const(0)
    if a.lo >= 0 and a.hi < b.lo:
        return a
    # (x mod m1) mod m2 = x mod m2 when m2 | m1 (constants)
    if a.op == "rem" and is_const(b) and is_const(a.args[1]) and cval(b) > 0 and cval(a.args[1]) % cval(b) == 0:
        return rem(a.args[0], b)
    return _mk("rem", (a, b), 0, max(0, min(a.hi, b.hi - 1)))


def mod2(a, bits):
    """a mod 2^bits (wrapping to an unsigned machine width)."""
    m = 1 << bits
    if a.lo >= 0 and a.hi < m:
        return a
    if is_const(a):
        return const(cval(a) % m)
    return _mk("rem", (a, const(m)), 0, m - 1)


def bitop(op, a, b, bits):
    if is_const(a) and is_const(b):
        f = {"xor": lambda x, y: x ^ y, "and": lambda x, y: x & y, "or": lambda x, y: x | y}[op]
        return const(f(cval(a), cval(b)))
    if op == "and":
        for x, y in ((a, b), (b, a)):
            if is_const(x) and (cval(x) + 1) & cval(x) == 0:      # mask 2^k - 1
                return rem(y, const(cval(x) + 1))
        hi = min(a.hi, b.hi)
    else:
        n = max(a.hi, b.hi).bit_length()
        hi = (1 << n) - 1
    return _mk("bit" + op, (a, b, bits), 0, hi)


def ite(c, a, b):
    if c is TRUE:
        return a
    if c is FALSE:
        return b
    if a is b:
        return a
    if c.op == "not":
        return ite(c.args[0], b, a)
    if a.isbool:
        return or_(and_(c, a), and_(not_(c), b))
    return _mk("ite", (c, a, b), min(a.lo, b.lo), max(a.hi, b.hi))


def _cmp(op, a, b):
    if is_const(a) and is_const(b):
        x, y = cval(a), cval(b)
        return const({"<": x < y, "<=": x <= y, "=": x == y}[op])
    if op == "<":
        if a.hi < b.lo:
            return TRUE
        if a.lo >= b.hi:
            return FALSE
    elif op == "<=":
        if a.hi <= b.lo:
            return TRUE
        if a.lo > b.hi:
            return FALSE
    elif op == "=":
        if a is b:
            return TRUE
        if a.hi < b.lo or b.hi < a.lo:
            return FALSE
    return _mk(op, (a, b), 0, 1, True)


def lt(a, b):
    return _cmp("<", a, b)


def le(a, b):
    return _cmp("<=", a, b)


def gt(a, b):
    return _cmp("<", b, a)


def ge(a, b):
    return _cmp("<=", b, a)


def eq(a, b):
    if a.isbool and b.isbool:
        if a is b:
            return TRUE
        if b is TRUE:
            return a
        if b is FALSE:
            return not_(a)
        if a is TRUE:
            return b
        if a is FALSE:
            return not_(b)
        return _mk("iff", (a, b), 0, 1, True)
    return _cmp("=", a, b)


def ne(a, b):
    return not_(eq(a, b))


def not_(a):
    if a is TRUE:
        return FALSE
    if a is FALSE:
        return TRUE
    if a.op == "not":
        return a.args[0]
    return _mk("not", (a,), 0, 1, True)


def and_(*xs):
    out = []
    for x in xs:
        if x is FALSE:
            return FALSE
        if x is TRUE:
            continue
        if x.op == "and":
            out.extend(x.args)
        else:
            out.append(x)
    seen, uniq = set(), []
    for x in out:
        if x._id not in seen:
            seen.add(x._id)
            uniq.append(x)
    if not uniq:
        return TRUE
    if len(uniq) == 1:
        return uniq[0]
    return _mk("and", uniq, 0, 1, True)


def or_(*xs):
    out = []
    for x in xs:
        if x is TRUE:
            return TRUE
        if x is FALSE:
            continue
        if x.op == "or":
            out.extend(x.args)
        else:
            out.append(x)
    seen, uniq = set(), []
    for x in out:
        if x._id not in seen:
            seen.add(x._id)
            uniq.append(x)
    if not uniq:
        return FALSE
    if len(uniq) == 1:
        return uniq[0]
    return _mk("or", uniq, 0, 1, True)


def implies(a, b):
    return or_(not_(a), b)


def uf(name, arg, bits):
    """Uninterpreted table look-up (sound over-approximation of a constant array)."""
    return _mk("uf", (name, arg, bits), 0, (1 << bits) - 1)


def select_const_array(name, values, idx, bits):
    """Look-up in a constant array; concrete index -> constant, symbolic -> array term."""
    if is_const(idx):
        return const(values[cval(idx)])
    return _mk("select", (name, tuple(values), idx, bits), min(values), max(values))


def ceil_div(a, b):
    """Mathematical ceil(a/b) for a >= 0, b > 0 written with div/rem (shares nodes with the code's)."""
    d = div(a, b)
    return ite(eq(rem(a, b), const(0)), d, add(d, const(1)))


def evaluate(t, env, tables=None, memo=None):
    """Concrete evaluation of a term (translator validation): env maps variable names to ints/bools,
    tables maps uninterpreted table names to Python lists."""
    memo = {} if memo is None else memo
    r = memo.get(t._id)
    if r is not None:
        return r
    op, a = t.op, t.args
    ev = lambda x: evaluate(x, env, tables, memo)
    if op == "const":
        r = a[0]
    elif op == "true":
        r = True
    elif op == "false":
        r = False
    elif op in ("var", "bvar"):
        r = env[a[0]]
    elif op == "+":
        r = ev(a[0]) + ev(a[1])
    elif op == "-":
        r = ev(a[0]) - ev(a[1])
    elif op == "*":
        r = ev(a[0]) * ev(a[1])
    elif op == "div":
        d = ev(a[1])
        r = ev(a[0]) // d if d else 0
    elif op == "rem":
        d = ev(a[1])
        r = ev(a[0]) % d if d else 0
    elif op == "ite":
        r = ev(a[1]) if ev(a[0]) else ev(a[2])
    elif op == "<":
        r = ev(a[0]) < ev(a[1])
    elif op == "<=":
        r = ev(a[0]) <= ev(a[1])
    elif op in ("=", "iff"):
        r = ev(a[0]) == ev(a[1])
    elif op == "not":
        r = not ev(a[0])
    elif op == "and":
        r = all(ev(x) for x in a)
    elif op == "or":
        r = any(ev(x) for x in a)
    elif op == "bitxor":
        r = ev(a[0]) ^ ev(a[1])
    elif op == "bitand":
        r = ev(a[0]) & ev(a[1])
    elif op == "bitor":
        r = ev(a[0]) | ev(a[1])
    elif op == "select":
        r = a[1][ev(a[2])]
    elif op == "uf":
        r = tables[a[0]][ev(a[1])]
    else:
        raise ValueError("cannot evaluate %s" % op)
    memo[t._id] = r
    return r


# ------------------------------------------------------------------------------------------------
# Printing


class IntPrinter:
    """SMT-LIB (logic ALL / non-linear integer arithmetic) printer."""

    def __init__(self):
        self.decls = []          # declarations and side constraints, in order
        self.names = {}
        self.abstracted = []     # bit operations replaced by a fresh bounded value
        self.arrays = {}
        self.n = 0
        self.vars = {}

    def fresh(self, prefix):
        self.n += 1
        return "%s!%d" % (prefix, self.n)

    def p(self, t):
        r = self.names.get(t._id)
        if r is None:
            r = self._p(t)
            # name shared sub-terms to keep the output linear in the DAG size
            if t.op not in ("const", "var", "bvar", "true", "false") and len(r) > 40:
                nm = self.fresh("t")
                sort = "Bool" if t.isbool else "Int"
                self.decls.append("(define-fun %s () %s %s)" % (nm, sort, r))
                r = nm
            self.names[t._id] = r
        return r

    def _num(self, v):
        return str(v) if v >= 0 else "(- %d)" % (-v)

    def _p(self, t):
        op, a = t.op, t.args
        if op == "const":
            return self._num(a[0])
        if op == "true":
            return "true"
        if op == "false":
            return "false"
        if op == "var":
            name = a[0]
            if name not in self.vars:
                self.vars[name] = t
                self.decls.append("(declare-const %s Int)" % name)
                self.decls.append("(assert (and (<= %s %s) (<= %s %s)))" % (self._num(t.lo), name, name, self._num(t.hi)))
            return name
        if op == "bvar":
            if a[0] not in self.vars:
                self.vars[a[0]] = t
                self.decls.append("(declare-const %s Bool)" % a[0])
            return a[0]
        if op in ("+", "-", "*"):
            return "(%s %s %s)" % (op, self.p(a[0]), self.p(a[1]))
        if op in ("div", "rem"):
            x, y = a
            if is_const(y):
                return "(%s %s %s)" % ("div" if op == "div" else "mod", self.p(x), self.p(y))
            q, r = self._divrem(x, y)
            return q if op == "div" else r
        if op == "ite":
            return "(ite %s %s %s)" % (self.p(a[0]), self.p(a[1]), self.p(a[2]))
        if op in ("<", "<=", "="):
            return "(%s %s %s)" % (op, self.p(a[0]), self.p(a[1]))
        if op == "iff":
            return "(= %s %s)" % (self.p(a[0]), self.p(a[1]))
        if op == "not":
            return "(not %s)" % self.p(a[0])
        if op in ("and", "or"):
            return "(%s %s)" % (op, " ".join(self.p(x) for x in a))
        if op.startswith("bit"):
            # bit operations are uninterpreted binary functions with a range axiom per application
            # (sound over-approximation; congruence keeps equal operands -> equal results)
            fn = "%s%d" % (op, a[2])
            if fn not in self.arrays:
                self.arrays[fn] = True
                self.decls.append("(declare-fun %s (Int Int) Int)" % fn)
            r = "(%s %s %s)" % (fn, self.p(a[0]), self.p(a[1]))
            nm = self.fresh("bitop")
            self.decls.append("(define-fun %s () Int %s)" % (nm, r))
            self.decls.append("(assert (and (<= 0 %s) (<= %s %d)))" % (nm, nm, t.hi))
            self.abstracted.append("%s(%s)" % (op, nm))
            return nm
        if op == "uf":
            name, arg, bits = a
            if name not in self.arrays:
                self.arrays[name] = True
                self.decls.append("(declare-fun %s (Int) Int)" % name)
            r = "(%s %s)" % (name, self.p(arg))
            self.decls.append("(assert (and (<= 0 %s) (< %s %d)))" % (r, r, 1 << bits))
            return r
        if op == "select":
            name, values, idx, bits = a
            if name not in self.arrays:
                self.arrays[name] = True
                self.decls.append("(declare-fun %s (Int) Int)" % name)
                for i, v in enumerate(values):
                    self.decls.append("(assert (= (%s %d) %d))" % (name, i, v))
            return "(%s %s)" % (name, self.p(idx))
        raise ValueError("cannot print %s" % op)

    def _divrem(self, x, y):
        key = ("divrem", x._id, y._id)
        if key in self.names:
            return self.names[key]
        q, r = self.fresh("q"), self.fresh("r")
        px, py = self.p(x), self.p(y)
        self.decls.append("(declare-const %s Int)" % q)
        self.decls.append("(declare-const %s Int)" % r)
        # division lemma, valid whenever the divisor is positive (paths with divisor 0 panic first)
        self.decls.append("(assert (=> (> %s 0) (and (= %s (+ (* %s %s) %s)) (<= 0 %s) (< %s %s) (<= 0 %s) (<= %s %s))))"
                          % (py, px, q, py, r, r, r, py, q, q, px if x.lo >= 0 else q))
        self.names[key] = (q, r)
        return q, r

    def script(self, assertions, get_values=()):
        body = [self.p(a) for a in assertions]
        lines = ["(set-logic ALL)", "(set-option :produce-models true)"] + self.decls
        lines += ["(assert %s)" % b for b in body]
        lines.append("(check-sat)")
        if get_values:
            lines.append("(get-value (%s))" % " ".join(get_values))
        return "\n".join(lines) + "\n"


class BVPrinter:
    """Bit-precise printer: every integer term is a bit-vector of one uniform width, chosen large
    enough that no intermediate mathematical value wraps (checked from the interval bounds)."""

    def __init__(self, width):
        self.w = width
        self.decls = []
        self.names = {}
        self.vars = {}
        self.arrays = {}
        self.n = 0

    def fresh(self, prefix):
        self.n += 1
        return "%s!%d" % (prefix, self.n)

    def _c(self, v):
        if v < 0 or v >= (1 << self.w):
            raise ValueError("constant %d does not fit BV width %d" % (v, self.w))
        return "(_ bv%d %d)" % (v, self.w)

    def p(self, t):
        r = self.names.get(t._id)
        if r is None:
            # a negative lower bound only arises from differences that are guarded by an ite/underflow test (the interval
            # analysis is path-insensitive); bvsub wraps, and the guarded value is never the wrapped one
            if not t.isbool and t.hi >= (1 << self.w):
                raise ValueError("term range [%s,%s] exceeds BV width %d: %r" % (t.lo, t.hi, self.w, t.op))
            r = self._p(t)
            if t.op not in ("const", "var", "bvar", "true", "false") and len(r) > 40:
                nm = self.fresh("t")
                sort = "Bool" if t.isbool else "(_ BitVec %d)" % self.w
                self.decls.append("(define-fun %s () %s %s)" % (nm, sort, r))
                r = nm
            self.names[t._id] = r
        return r

    def _p(self, t):
        op, a = t.op, t.args
        if op == "const":
            return self._c(a[0])
        if op == "true":
            return "true"
        if op == "false":
            return "false"
        if op == "var":
            name = a[0]
            if name not in self.vars:
                self.vars[name] = t
                self.decls.append("(declare-const %s (_ BitVec %d))" % (name, self.w))
                self.decls.append("(assert (and (bvule %s %s) (bvule %s %s)))" % (self._c(t.lo), name, name, self._c(t.hi)))
            return name
        if op == "bvar":
            if a[0] not in self.vars:
                self.vars[a[0]] = t
                self.decls.append("(declare-const %s Bool)" % a[0])
            return a[0]
        if op == "-":
            # the mathematical difference may be negative only under a guard; callers keep lo >= 0
            return "(bvsub %s %s)" % (self.p(a[0]), self.p(a[1]))
        if op in ("+", "*", "div", "rem"):
            f = {"+": "bvadd", "*": "bvmul", "div": "bvudiv", "rem": "bvurem"}[op]
            return "(%s %s %s)" % (f, self.p(a[0]), self.p(a[1]))
        if op == "ite":
            return "(ite %s %s %s)" % (self.p(a[0]), self.p(a[1]), self.p(a[2]))
        if op in ("<", "<="):
            return "(%s %s %s)" % ("bvult" if op == "<" else "bvule", self.p(a[0]), self.p(a[1]))
        if op in ("=", "iff"):
            return "(= %s %s)" % (self.p(a[0]), self.p(a[1]))
        if op == "not":
            return "(not %s)" % self.p(a[0])
        if op in ("and", "or"):
            return "(%s %s)" % (op, " ".join(self.p(x) for x in a))
        if op.startswith("bit"):
            f = {"bitxor": "bvxor", "bitand": "bvand", "bitor": "bvor"}[op]
            return "(%s %s %s)" % (f, self.p(a[0]), self.p(a[1]))
        if op == "select":
            name, values, idx, bits = a
            if name not in self.arrays:
                self.arrays[name] = True
                self.decls.append("(declare-fun %s ((_ BitVec %d)) (_ BitVec %d))" % (name, self.w, self.w))
                for i, v in enumerate(values):
                    self.decls.append("(assert (= (%s %s) %s))" % (name, self._c(i), self._c(v)))
            return "(%s %s)" % (name, self.p(idx))
        if op == "uf":
            name, arg, bits = a
            if name not in self.arrays:
                self.arrays[name] = True
                self.decls.append("(declare-fun %s ((_ BitVec %d)) (_ BitVec %d))" % (name, self.w, self.w))
            r = "(%s %s)" % (name, self.p(arg))
            self.decls.append("(assert (bvult %s %s))" % (r, self._c(1 << bits)))
            return r
        raise ValueError("cannot print %s" % op)

    def script(self, assertions, get_values=()):
        body = [self.p(a) for a in assertions]
        lines = ["(set-logic ALL)", "(set-option :produce-models true)"] + self.decls
        lines += ["(assert %s)" % b for b in body]
        lines.append("(check-sat)")
        if get_values:
            lines.append("(get-value (%s))" % " ".join(get_values))
        return "\n".join(lines) + "\n"


def max_bits(terms):
    """Smallest uniform BV width that holds every sub-term of the given terms."""
    seen, hi, stack = set(), 1, list(terms)
    neg = False
    while stack:
        t = stack.pop()
        if t._id in seen:
            continue
        seen.add(t._id)
        if not t.isbool:
            hi = max(hi, t.hi)
            if t.lo < 0 and t.op != "-":
                neg = True
        for x in t.args:
            if isinstance(x, Term):
                stack.append(x)
    return hi.bit_length() + 1, neg


# ------------------------------------------------------------------------------------------------
# Solvers

SOLVERS = {
    "z3": ["z3-new", "-smt2", "-in"],
    "cvc5": ["cvc5", "--lang", "smt2", "--produce-models"],
}


class SolverResult:
    def __init__(self, status, model, time_s, solver, raw):
        self.status, self.model, self.time_s, self.solver, self.raw = status, model, time_s, solver, raw


def _parse_model(text):
    model = {}
    for m in re.finditer(r"\(\s*([A-Za-z_][\w!.]*)\s+(\(- (\d+)\)|\d+|#x[0-9a-fA-F]+|#b[01]+|true|false|\(_ bv(\d+) \d+\))\s*\)", text):
        name, v = m.group(1), m.group(2)
        if v in ("true", "false"):
            model[name] = v == "true"
        elif v.startswith("(-"):
            model[name] = -int(m.group(3))
        elif v.startswith("#x"):
            model[name] = int(v[2:], 16)
        elif v.startswith("#b"):
            model[name] = int(v[2:], 2)
        elif v.startswith("(_ bv"):
            model[name] = int(m.group(4))
        else:
            model[name] = int(v)
    return model


def _classify(out, dt, solver):
    first = out.strip().splitlines()[0].strip() if out.strip() else ""
    has_err = "(error" in out
    if first == "unsat":
        # after `unsat` the only tolerated error is the failing (get-value ...)
        errs = [l for l in out.splitlines() if "(error" in l]
        if any(not re.search(r"model|get-value|cannot get value|not available|unsat", l, re.I) for l in errs):
            return SolverResult("error", {}, dt, solver, out[-2000:])
        return SolverResult("unsat", {}, dt, solver, out[-300:])
    if has_err:
        return SolverResult("error", {}, dt, solver, out[-2000:])
    if first == "sat":
        return SolverResult("sat", _parse_model(out), dt, solver, out[-2000:])
    if first in ("unknown", "timeout") or "timeout" in out.lower() or "interrupted" in out.lower():
        return SolverResult("timeout", {}, dt, solver, out[-300:])
    return SolverResult("error" if out.strip() else "timeout", {}, dt, solver, out[-2000:])


def _cmd(solver, timeout_s):
    cmd = list(SOLVERS[solver])
    if solver == "z3":
        cmd.insert(1, "-T:%d" % timeout_s)
    else:
        cmd.append("--tlimit=%d" % (timeout_s * 1000))
    return cmd


def solve(script, solver="z3", timeout_s=60):
    """Run one query. status: sat | unsat | timeout | error (any unexpected `(error` line => error)."""
    v, rs = portfolio(script, timeout_s, (solver,))
    return rs[0]


def portfolio(script, timeout_s=60, solvers=("z3", "cvc5"), need_all=False, grace_s=20):
    """Run the solvers in parallel on the same script.  The first definite answer (sat/unsat) decides;
    the other solvers get `grace_s` more seconds to answer too (cross-check) and are then stopped.
    verdict: sat | unsat | disagree | error | timeout."""
    f = tempfile.NamedTemporaryFile("w", suffix=".smt2", delete=False, dir=os.environ.get("VERIF_SMT_TMP", None))
    f.write(script)
    f.close()
    procs = {}
    t0 = time.time()
    try:
        for s in solvers:
            cmd = _cmd(s, timeout_s)
            if s == "z3":
                cmd = [c for c in cmd if c != "-in"] + [f.name]
            else:
                cmd = cmd + [f.name]
            procs[s] = subprocess.Popen(cmd, stdout=subprocess.PIPE, stderr=subprocess.STDOUT, text=True)
        results, deadline, first_answer = {}, t0 + timeout_s + 15, None
        while len(results) < len(procs) and time.time() < deadline:
            for s, p in procs.items():
                if s in results or p.poll() is None:
                    continue
                out = p.stdout.read()
                results[s] = _classify(out, time.time() - t0, s)
                if results[s].status in ("sat", "unsat") and first_answer is None:
                    first_answer = time.time()
                    if not need_all:
                        deadline = min(deadline, first_answer + grace_s)
            time.sleep(0.02)
        for s, p in procs.items():
            if s not in results:
                p.kill()
                p.wait()
                results[s] = SolverResult("timeout", {}, time.time() - t0, s, "stopped")
    finally:
        os.unlink(f.name)
    rs = [results[s] for s in solvers]
    answers = {r.status for r in rs if r.status in ("sat", "unsat")}
    if len(answers) == 2:
        return "disagree", rs
    if need_all and any(r.status not in ("sat", "unsat") for r in rs):
        return "inconclusive", rs
    if answers:
        return answers.pop(), rs
    if any(r.status == "error" for r in rs):
        return "error", rs
    return "timeout", rs
