"""Independent Python transcription of RFC 6330 §5 (the oracle of engines E2/E3).

Written from the RFC's definitions, not from /repo's code structure:
  §5.7   GF(256) with x^8+x^4+x^3+x^2+1, alpha = 2
  §5.3.5.1 Rand[y,i,m], §5.3.5.2 Deg[v], §5.3.5.4 Tuple[K',X], §5.3.5.3 Enc[K',C,(d,a,b,d1,a1,b1)]
  §5.3.3.3 LDPC and HDPC relations (G_HDPC = MT * GAMMA)
Constant tables (Table 2, V0..V3, f[]) come from /verif/oracle/rfc6330_tables.json (pinned).
"""
import json
import os

_HERE = os.path.dirname(os.path.dirname(os.path.abspath(__file__)))
_T = json.load(open(os.path.join(_HERE, "oracle", "rfc6330_tables.json")))
TABLE2 = [tuple(r) for r in _T["table2"]]          # (K', J, S, H, W)
P1S = _T["p1"]
V = _T["V"]
DEG_F = _T["deg_f"]
KMAX = 56403

# ---- GF(256) ------------------------------------------------------------------------------------


def gf_mul(a, b):
    r = 0
    while b:
        if b & 1:
            r ^= a
        a <<= 1
        if a & 0x100:
            a ^= 0x11D
        b >>= 1
    return r


GF_EXP = [1] * 256
for _i in range(1, 256):
    GF_EXP[_i] = gf_mul(GF_EXP[_i - 1], 2)


def gf_pow2(i):
    return GF_EXP[i % 255]


def gf_inv(a):
    assert a != 0
    r = 1
    for _ in range(254):
        r = gf_mul(r, a)
    return r


def gf_matrix_bits(c):
    """8x8 F_2 matrix of 'multiply by c': column j = bits of c * 2^j."""
    return [gf_mul(c, 1 << j) for j in range(8)]


# ---- parameters ---------------------------------------------------------------------------------

def row_index(K):
    assert 0 <= K <= KMAX
    for i, r in enumerate(TABLE2):
        if r[0] >= K:
            return i
    raise AssertionError


class Params:
    def __init__(self, K):
        i = row_index(K)
        self.row = i
        self.Kp, self.J, self.S, self.H, self.W = TABLE2[i]
        self.L = self.Kp + self.S + self.H
        self.P = self.L - self.W
        self.P1 = P1S[i]
        self.U = self.P - self.H
        self.B = self.W - self.S


def is_prime(n):
    if n < 2:
        return False
    i = 2
    while i * i <= n:
        if n % i == 0:
            return False
        i += 1
    return True


# ---- generators -----------------------------------------------------------------------------------

def rand(y, i, m):
    x0 = (y + i) % 256
    x1 = ((y >> 8) + i) % 256
    x2 = ((y >> 16) + i) % 256
    x3 = ((y >> 24) + i) % 256
    return (V[0][x0] ^ V[1][x1] ^ V[2][x2] ^ V[3][x3]) % m


def deg(v, W):
    assert 0 <= v < (1 << 20)
    for d in range(1, 31):
        if DEG_F[d - 1] <= v < DEG_F[d]:
            return min(d, W - 2)
    raise AssertionError


def tuple_(p, X):
    A = 53591 + p.J * 997
    if A % 2 == 0:
        A += 1
    B = 10267 * (p.J + 1)
    y = (B + X * A) % (1 << 32)
    v = rand(y, 0, 1 << 20)
    d = deg(v, p.W)
    a = 1 + rand(y, 1, p.W - 1)
    b = rand(y, 2, p.W)
    d1 = 2 + rand(X, 3, 2) if d < 4 else 2
    a1 = 1 + rand(X, 4, p.P1 - 1)
    b1 = rand(X, 5, p.P1)
    return d, a, b, d1, a1, b1


def enc_indices(p, t):
    """Indices of the intermediate symbols that Enc[] xors together (with multiplicity)."""
    d, a, b, d1, a1, b1 = t
    out = [b]
    for _ in range(1, d):
        b = (b + a) % p.W
        out.append(b)
    while b1 >= p.P:
        b1 = (b1 + a1) % p.P1
    out.append(p.W + b1)
    for _ in range(1, d1):
        b1 = (b1 + a1) % p.P1
        while b1 >= p.P:
            b1 = (b1 + a1) % p.P1
        out.append(p.W + b1)
    return out


def lt_row(p, X):
    """Set of column indices with coefficient 1 in the LT relation of internal symbol id X (mod-2 sum)."""
    row = {}
    for j in enc_indices(p, tuple_(p, X)):
        row[j] = row.get(j, 0) ^ 1
    return sorted(j for j, v in row.items() if v)


def ldpc_rows(p):
    """S rows over GF(2): D[i] relations of §5.3.3.3 as lists of column indices."""
    rows = [dict() for _ in range(p.S)]

    def flip(r, c):
        rows[r][c] = rows[r].get(c, 0) ^ 1
    for i in range(p.B):
        a = 1 + i // p.S
        b = i % p.S
        flip(b, i)
        b = (b + a) % p.S
        flip(b, i)
        b = (b + a) % p.S
        flip(b, i)
    for i in range(p.S):
        flip(i, p.B + i)                      # C[B+i] itself
        flip(i, p.W + (i % p.P))
        flip(i, p.W + ((i + 1) % p.P))
    return [sorted(c for c, v in r.items() if v) for r in rows]


def hdpc_rows(p):
    """H rows over GF(256): [G_HDPC | I_H] with G_HDPC = MT * GAMMA (dense lists of length L)."""
    n = p.Kp + p.S
    MT = [[0] * n for _ in range(p.H)]
    for j in range(n - 1):
        i1 = rand(j + 1, 6, p.H)
        i2 = (i1 + rand(j + 1, 7, p.H - 1) + 1) % p.H
        MT[i1][j] = 1
        MT[i2][j] = 1
    for i in range(p.H):
        MT[i][n - 1] = gf_pow2(i)
    # GAMMA[i][j] = alpha^(i-j) for i >= j.  (MT*GAMMA)[r][j] = sum_{i>=j} MT[r][i] * alpha^(i-j)
    rows = []
    for r in range(p.H):
        out = [0] * p.L
        acc = 0
        for j in range(n - 1, -1, -1):
            acc = gf_mul(acc, 2) ^ MT[r][j]
            out[j] = acc
        out[n + r] = 1
        rows.append(out)
    return rows


# ---- reference encoder (concrete, byte-exact) -----------------------------------------------------

def solve_intermediate(p, source_symbols, T):
    """Solve A*C = D over GF(256) by plain Gaussian elimination (reference, small K only)."""
    L = p.L
    A = []
    D = []
    for r in ldpc_rows(p):
        row = [0] * L
        for c in r:
            row[c] = 1
        A.append(row)
        D.append(bytes(T))
    for r in hdpc_rows(p):
        A.append(list(r))
        D.append(bytes(T))
    for X in range(p.Kp):
        row = [0] * L
        for c in lt_row(p, X):
            row[c] = 1
        A.append(row)
        D.append(bytes(source_symbols[X]) if X < len(source_symbols) else bytes(T))
    D = [bytearray(d) for d in D]
    n = len(A)
    piv_row = 0
    where = [-1] * L
    for col in range(L):
        sel = None
        for r in range(piv_row, n):
            if A[r][col]:
                sel = r
                break
        if sel is None:
            return None
        A[piv_row], A[sel] = A[sel], A[piv_row]
        D[piv_row], D[sel] = D[sel], D[piv_row]
        inv = gf_inv(A[piv_row][col])
        if inv != 1:
            A[piv_row] = [gf_mul(x, inv) for x in A[piv_row]]
            D[piv_row] = bytearray(gf_mul(x, inv) for x in D[piv_row])
        for r in range(n):
            if r != piv_row and A[r][col]:
                f = A[r][col]
                A[r] = [x ^ gf_mul(f, y) for x, y in zip(A[r], A[piv_row])]
                D[r] = bytearray(x ^ gf_mul(f, y) for x, y in zip(D[r], D[piv_row]))
        where[col] = piv_row
        piv_row += 1
    return [bytes(D[where[c]]) for c in range(L)]


def enc_symbol(p, C, X, T):
    out = bytearray(T)
    for j in enc_indices(p, tuple_(p, X)):
        cj = C[j]
        for k in range(T):
            out[k] ^= cj[k]
    return bytes(out)
