"""Native replay helper: builds /verif/replay (path dependency on /repo) into the scratch dir in the
dev profile (debug assertions + overflow checks) and the release profile, and runs sub-commands."""
import os

from .common import VERIF, run, offline_env


class Replay:
    def __init__(self, scratch_dir, no_std=False):
        self.target = os.path.join(scratch_dir, "replay_target" + ("_nostd" if no_std else ""))
        self.built = {}
        self.manifest = os.path.join(VERIF, "replay", "Cargo.toml")
        if no_std:
            # the same public-API program linked against the crate built WITHOUT its default `std` feature
            d = os.path.join(scratch_dir, "replay_nostd")
            os.makedirs(os.path.join(d, "src"), exist_ok=True)
            import shutil
            shutil.copy(os.path.join(VERIF, "replay", "src", "main.rs"), os.path.join(d, "src", "main.rs"))
            text = open(self.manifest).read().replace('raptorq = { path = "/repo" }', 'raptorq = { path = "/repo", default-features = false }')
            open(os.path.join(d, "Cargo.toml"), "w").write(text)
            self.manifest = os.path.join(d, "Cargo.toml")

    def build(self, release):
        if release in self.built:
            return self.built[release]
        cmd = ["cargo", "build", "--offline", "--manifest-path", self.manifest,
               "--target-dir", self.target]
        if release:
            cmd.append("--release")
        rc, out, secs = run(cmd, env=offline_env(), timeout=900)
        if rc != 0:
            raise RuntimeError("replay crate build failed:\n" + out[-3000:])
        self.built[release] = os.path.join(self.target, "release" if release else "debug", "rqreplay")
        return self.built[release]

    def run(self, args, release=False, timeout=600, multiline=False):
        exe = self.build(release)
        rc, out, secs = run([exe] + [str(a) for a in args], timeout=timeout)
        if multiline:
            i = out.find("RESULT ")
            return out[i + len("RESULT "):].strip() if i >= 0 else "noresult rc=%s %s" % (rc, out[-300:].replace("\n", " "))
        for line in out.splitlines():
            if line.startswith("RESULT "):
                return line[len("RESULT "):].strip()
        return "noresult rc=%s %s" % (rc, out[-300:].replace("\n", " "))

    def both(self, args, timeout=600):
        return {"dev": self.run(args, False, timeout), "release": self.run(args, True, timeout)}


class Native:
    """/verif/native built against /repo's working tree with the hook cfg on (engine E3 native stage)."""

    def __init__(self, scratch_dir):
        self.target = os.path.join(scratch_dir, "native_target")
        self.built = {}

    def build(self, release):
        if release in self.built:
            return self.built[release]
        cmd = ["cargo", "build", "--offline", "--manifest-path", os.path.join(VERIF, "native", "Cargo.toml"),
               "--target-dir", self.target]
        if release:
            cmd.append("--release")
        rc, out, secs = run(cmd, env=offline_env({"RUSTFLAGS": "--cfg raptorq_verif"}), timeout=900)
        if rc != 0:
            raise RuntimeError("native helper build failed:\n" + out[-3000:])
        self.built[release] = os.path.join(self.target, "release" if release else "debug", "rqnative")
        return self.built[release]

    def run(self, args, release=False, timeout=1800):
        exe = self.build(release)
        rc, out, secs = run([exe] + [str(a) for a in args], timeout=timeout)
        i = out.find("RESULT ")
        if i < 0:
            return "noresult rc=%s %s" % (rc, out[-300:].replace("\n", " "))
        return out[i + len("RESULT "):].strip()

    def both(self, args, timeout=1800):
        return {"dev": self.run(args, False, timeout), "release": self.run(args, True, timeout)}
