"""Native replay helper: builds /verif/replay (path dependency on /repo) into the scratch dir in the
dev profile (debug assertions + overflow checks) and the release profile, and runs sub-commands."""
import os

from .common import VERIF, run, offline_env


class Replay:
    def __init__(self, scratch_dir):
        self.target = os.path.join(scratch_dir, "replay_target")
        self.built = {}

    def build(self, release):
        if release in self.built:
            return self.built[release]
        cmd = ["cargo", "build", "--offline", "--manifest-path", os.path.join(VERIF, "replay", "Cargo.toml"),
               "--target-dir", self.target]
        if release:
            cmd.append("--release")
        rc, out, secs = run(cmd, env=offline_env(), timeout=900)
        if rc != 0:
            raise RuntimeError("replay crate build failed:\n" + out[-3000:])
        self.built[release] = os.path.join(self.target, "release" if release else "debug", "rqreplay")
        return self.built[release]

    def run(self, args, release=False, timeout=600):
        exe = self.build(release)
        rc, out, secs = run([exe] + [str(a) for a in args], timeout=timeout)
        for line in out.splitlines():
            if line.startswith("RESULT "):
                return line[len("RESULT "):].strip()
        return "noresult rc=%s %s" % (rc, out[-300:].replace("\n", " "))

    def both(self, args, timeout=600):
        return {"dev": self.run(args, False, timeout), "release": self.run(args, True, timeout)}


class Native:
    """/verif/native built against /repo's working tree with the hook cfg on (engine E3 native stage)."""

    def __init__(self, scratch_dir):
        self.target = os.path.join(scratch_dir, "native_target")
        self.built = {}

    def build(self, release):
        if release in self.built:
            return self.built[release]
        cmd = ["cargo", "build", "--offline", "--manifest-path", os.path.join(VERIF, "native", "Cargo.toml"),
               "--target-dir", self.target]
        if release:
            cmd.append("--release")
        rc, out, secs = run(cmd, env=offline_env({"RUSTFLAGS": "--cfg raptorq_verif"}), timeout=900)
        if rc != 0:
            raise RuntimeError("native helper build failed:\n" + out[-3000:])
        self.built[release] = os.path.join(self.target, "release" if release else "debug", "rqnative")
        return self.built[release]

    def run(self, args, release=False, timeout=1800):
        exe = self.build(release)
        rc, out, secs = run([exe] + [str(a) for a in args], timeout=timeout)
        i = out.find("RESULT ")
        if i < 0:
            return "noresult rc=%s %s" % (rc, out[-300:].replace("\n", " "))
        return out[i + len("RESULT "):].strip()

    def both(self, args, timeout=1800):
        return {"dev": self.run(args, False, timeout), "release": self.run(args, True, timeout)}
