"""Decode scenarios for C01/C02/C07 (engine E3, decoder form).

A scenario = (K, T, sparse threshold, arrival sequence of ESIs).  It is run twice through the real
SourceBlockDecoder (hooked): once with tag payloads (payload of ESI e = e+1, big endian) to OBSERVE the
layout of the slab handed to the PI solver, once with the real encoder's packets for the end-to-end
answer.  The program of the successful solver run is certified for all data (certify_decoder)."""
import random

from . import cert, rfc

TAG_T = 4
DENSE, SPARSE = 60000, 0


def parse_decode_seq(text):
    out = {"data": None, "steps": [], "raw_head": text[:80]}
    cur = None
    block = []
    for ln in text.splitlines():
        if ln.startswith("DATA "):
            out["data"] = bytes.fromhex(ln[5:].strip())
        elif ln.startswith("STEP "):
            if cur is not None:
                cur["records"] = cert.parse_records("\n".join(block))
            parts = dict(x.split("=") for x in ln.split()[2:])
            cur = {"esis": [int(x) for x in parts["esi"].split("+")], "result": None if parts["result"] == "none" else bytes.fromhex(parts["result"])}
            cur["esi"] = cur["esis"][-1]
            out["steps"].append(cur)
            block = []
        else:
            block.append(ln)
    if cur is not None:
        cur["records"] = cert.parse_records("\n".join(block))
    return out


def layout_from_tags(rec, K):
    """rows of the slab -> ('zero',) | ('isi', X), from a tag-mode record. Returns (rows, problem)."""
    p = rfc.Params(K)
    T = rec["t"]
    D = rec["D"]
    n = rec["rows"]
    nconstraint = p.S + (p.H if rec["hdpc"] else 0)
    rows = []
    pad_seen = 0
    for i in range(n):
        v = int.from_bytes(D[i * T:i * T + 4], "big")
        if i < nconstraint:
            if v != 0:
                return None, "constraint row %d of the slab carries a received payload (tag %d)" % (i, v)
            rows.append(("zero",))
        elif v == 0:
            rows.append(("isi", K + pad_seen))      # padding symbols K..K'-1, in order
            pad_seen += 1
        else:
            esi = v - 1
            rows.append(("isi", esi if esi < K else esi + p.Kp - K))
    if pad_seen != p.Kp - K:
        return None, "slab has %d zero data rows, expected %d padding rows" % (pad_seen, p.Kp - K)
    return rows, None


def scenarios(tier, seed, ks=None):
    """Deterministic family + seeded part. Each: dict(K, thr, esis, why)."""
    rnd = random.Random(1000 + seed)
    thorough = tier == "thorough"
    ks = ks or ([1, 2, 9, 10, 11, 26] + ([3, 12, 13, 27, 55, 101] if thorough else []))
    special = [(1 << 24) - 1, (1 << 24) - 2, 1 << 23]
    out = []

    def add(K, thr, esis, why):
        # esis: flat list = one packet per decode() call; list of lists = batches
        batches = [list(b) for b in esis if b] if esis and isinstance(esis[0], list) else [[e] for e in esis]
        out.append({"K": K, "thr": thr, "batches": batches, "esis": [e for b in batches for e in b], "why": why})
    for K in ks:
        p = rfc.Params(K)
        thr_of = lambda n: DENSE if n % 2 == 0 else SPARSE
        n = 0
        src = list(range(K))
        rep = lambda cnt, start=0: [K + start + i for i in range(cnt)]
        # a) single erasures, overhead 0/1/2
        singles = src if K <= 11 else rnd.sample(src, min(len(src), 8 if not thorough else 20))
        for i in singles:
            for h in (0, 1, 2):
                esis = [e for e in src if e != i] + rep(1 + h)
                rnd.shuffle(esis)
                add(K, thr_of(n), esis, "single erasure of %d, overhead %d" % (i, h)); n += 1
        # b) pairs
        pairs = [(i, j) for i in range(K) for j in range(i + 1, K)]
        rnd.shuffle(pairs)
        for (i, j) in pairs[:(12 if not thorough else 60)]:
            esis = [e for e in src if e not in (i, j)] + rep(2 + rnd.randrange(2))
            rnd.shuffle(esis)
            add(K, thr_of(n), esis, "pair erasure (%d,%d)" % (i, j)); n += 1
        # c) repair only
        for h in (0, 1, 2):
            add(K, thr_of(n), rep(K + h), "repair only, overhead %d" % h); n += 1
            add(K, thr_of(n), rep(K + h, start=rnd.randrange(1, 1 << 20)), "repair only from a seeded start, overhead %d" % h); n += 1
        # d) special / seeded 24-bit ESIs
        for h in (0, 1):
            cand = [e for e in special + [rnd.randrange(K, 1 << 24) for _ in range(K + 4)] if e >= K]
            esis = src[:K // 2] + cand[:K - K // 2 + h]
            rnd.shuffle(esis)
            add(K, thr_of(n), esis, "half source + extreme/seeded 24-bit repair ESIs, overhead %d" % h); n += 1
        # e) enough overhead for the binary-only fast path (received >= K' + H), with one source symbol missing
        need = p.Kp + p.H - (K - 1) - (p.Kp - K)
        if K > 1 and need > 0 and p.Kp <= 55:
            esis = src[1:] + rep(need + 1)
            add(K, thr_of(n), [esis], "one batch with overhead large enough for the no-HDPC fast path"); n += 1
            esis2 = list(esis)
            rnd.shuffle(esis2)
            add(K, thr_of(n), [esis2[:K - 2], esis2[K - 2:]], "two batches, the second reaches the no-HDPC fast path"); n += 1
            add(K, thr_of(n), [rep(K + p.H + 2, start=3)], "repair-only batch on the no-HDPC fast path"); n += 1
            add(K, thr_of(n), [[e for e in src if e != K // 2] + [(1 << 24) - 1 - i for i in range(p.H + 2)]], "no-HDPC fast path with the largest ESIs"); n += 1
        # g) ESIs that alias under truncation: equal low 16 / low 8 bits, strides of 2^16 and 2^8 (+ a source symbol with the same low bits)
        for stride in (1 << 16, 1 << 8):
            esis = src[:1] + [stride * (j + 1) for j in range(K + 1)]
            add(K, thr_of(n), esis, "repair ESIs in strides of %d aliasing a source ESI under truncation" % stride); n += 1
            esis = [K + 3 + stride * j for j in range(K + 2)]
            add(K, thr_of(n), esis, "repair ESIs congruent modulo %d" % stride); n += 1
        # f) duplicates and all-source completion
        esis = rep(2) + src[:K - 1] + [src[0]] + rep(1) + [src[K - 1]]
        add(K, thr_of(n), esis, "duplicates; completion by the last source symbol"); n += 1
        esis = list(src)
        rnd.shuffle(esis)
        add(K, thr_of(n), esis, "all source symbols, shuffled"); n += 1
    return out


def esis_arg(sc):
    return "|".join(",".join(map(str, b)) for b in sc["batches"])
