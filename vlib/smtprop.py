"""Discharge E2 obligations: print the query (Int encoding), run z3-new and cvc5, cross-check,
replay models natively, record the obligation."""
import re

from . import sx
from .common import HELD


def find_fn(mir, name_regex, arg_types=None):
    c = []
    for n, it in mir.items.items():
        if it.kind == "fn" and re.search(name_regex, n):
            if arg_types is None or [t for _, t in it.args] == list(arg_types):
                c.append(it)
    if len(c) != 1:
        raise KeyError("function %s%s: %d candidates" % (name_regex, arg_types or "", len(c)))
    return c[0]


def discharge(ctx, name, assertions, model_vars=(), replay=None, key_of=None, expect="unsat",
              timeout_s=None, kind="smt", printer="int", solvers=("z3", "cvc5"), extra_evidence=None):
    """expect='unsat': the conjunction is the negated property. SAT => counterexample (replayed).
    expect='sat'  : vacuity/reachability witness; UNSAT => vacuous harness (inconclusive)."""
    rep = ctx.report
    timeout_s = timeout_s or (120 if ctx.tier == "quick" else 900)
    if printer == "int":
        pr = sx.IntPrinter()
    else:
        bits, neg = sx.max_bits(assertions)
        pr = sx.BVPrinter(bits)
    try:
        pr.script(assertions)
        model_vars = [v for v in model_vars if v in pr.vars]
        pr.__init__(*( [pr.w] if printer != "int" else [] ))
        script = pr.script(assertions, get_values=model_vars)
    except Exception as e:  # printing problem = encoding problem
        rep.inconclusive(name, "cannot print query: %s" % e)
        return "error", {}
    verdict, results = sx.portfolio(script, timeout_s, solvers, grace_s=(0.5 if expect == 'sat' else (5 if ctx.tier == 'quick' else 30)))
    secs = max((r.time_s for r in results), default=0.0)
    times = {r.solver: (r.status, round(r.time_s, 2)) for r in results}
    extra = {"solvers": times, "encoding": printer, "query_bytes": len(script)}
    if getattr(pr, "abstracted", None):
        extra["abstracted_bitops"] = len(pr.abstracted)
    if extra_evidence:
        extra.update(extra_evidence)
    if verdict in ("disagree", "error", "timeout", "inconclusive"):
        detail = "; ".join("%s=%s %s" % (r.solver, r.status, r.raw[-200:].replace("\n", " ") if r.status == "error" else "") for r in results)
        rep.inconclusive(name, "%s: %s" % (verdict, detail), secs, "smt", **extra)
        return verdict, {}
    model = {}
    for r in results:
        if r.status == "sat":
            model = r.model
            break
    if expect == "sat":
        if verdict == "sat":
            rep.held(name, "witness: %s" % {k: model.get(k) for k in model_vars}, secs, "smt", **extra)
        else:
            rep.inconclusive(name, "vacuity witness is unsatisfiable: the obligation next to it is vacuous", secs, "smt", **extra)
        return verdict, model
    if verdict == "unsat":
        rep.held(name, "", secs, "smt", **extra)
        return verdict, {}
    # sat: counterexample -> native replay
    r = replay(model) if replay else None
    if not (r and r.get("reproduced_in")) and printer == "int" and getattr(pr, "abstracted", None):
        # the Int encoding abstracts bit operations by uninterpreted functions: a model that does not reproduce may be an
        # artefact of that abstraction -> ask again bit-precisely (uniform-width bit-vectors)
        try:
            bits, _ = sx.max_bits(assertions)
            pr2 = sx.BVPrinter(bits)
            pr2.script(assertions)
            mv2 = [v for v in model_vars if v in pr2.vars]
            pr2 = sx.BVPrinter(bits)
            v2, rs2 = sx.portfolio(pr2.script(assertions, get_values=mv2), max(timeout_s, 180), ("z3",), grace_s=0)
            extra["bit_precise_refinement"] = {"verdict": v2, "width": bits, "time_s": round(rs2[0].time_s, 2)}
            if v2 == "unsat":
                rep.held(name, "Int-encoding model was an artefact of abstracted bit operations; proved with the bit-vector encoding", secs + rs2[0].time_s, "smt/refined-bv", **extra)
                return "unsat", {}
            if v2 == "sat":
                model = rs2[0].model
                r = replay(model) if replay else None
        except Exception as e:
            extra["bit_precise_refinement"] = {"error": str(e)[:200]}
    if r and r.get("reproduced_in"):
        key = key_of(r) if key_of else name
        rep.violated(name, key, "solver model reproduces natively: %s" % {k: r[k] for k in r if k != "native"},
                     {"kind": kind, "engine": "E2", "obligation": name, "model": {k: model.get(k) for k in model_vars},
                      "replay": r}, secs, "smt", **extra)
    else:
        rep.inconclusive(name, "solver model %s does not reproduce natively (%s): encoding or oracle problem"
                         % ({k: model.get(k) for k in model_vars}, r), secs, "smt", **extra)
    return verdict, model
