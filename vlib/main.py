"""./check <ID> [--tier quick|thorough] [--replay <file>]"""
import argparse
import importlib
import os
import sys
import traceback

sys.path.insert(0, os.path.dirname(os.path.dirname(os.path.abspath(__file__))))

from vlib.common import Report, Scratch, INCONCLUSIVE  # noqa: E402

LEVELS = {
    "C01": "translation_validation", "C02": "translation_validation", "C04": "translation_validation",
    "C05": "model_checking", "C06": "translation_validation", "C07": "translation_validation",
    "C09": "model_checking", "C10": "model_checking", "C11": "model_checking", "C12": "model_checking",
    "C13": "model_checking", "C14": "model_checking", "C15": "model_checking", "C16": "model_checking",
    "C18": "model_checking", "C19": "model_checking",
}


class Ctx:
    pass


def main():
    ap = argparse.ArgumentParser()
    ap.add_argument("pid")
    ap.add_argument("--tier", default=os.environ.get("VERIF_TIER", "quick"), choices=["quick", "thorough"])
    ap.add_argument("--replay", default=None)
    ap.add_argument("--jobs", type=int, default=int(os.environ.get("VERIF_JOBS", "16")))
    args = ap.parse_args()
    pid = args.pid.upper()
    if pid not in LEVELS:
        print("unknown or not-applicable property %s" % pid)
        return 2
    mod = importlib.import_module("props.%s" % pid.lower())
    if args.replay:
        return mod.replay(args.replay)
    try:
        seed = int(os.environ.get("VERIF_SEED", "0"))
    except ValueError:
        seed = 0
    ctx = Ctx()
    ctx.tier, ctx.seed, ctx.jobs = args.tier, seed, args.jobs
    ctx.scratch = Scratch(pid)
    ctx.report = Report(pid, args.tier, LEVELS[pid], seed)
    try:
        mod.run(ctx)
    except Exception:
        tb = traceback.format_exc()
        sys.stderr.write(tb)
        ctx.report.inconclusive("framework-exception", tb[-500:])
    rc = ctx.report.finish()
    ctx.scratch.cleanup()
    return rc


if __name__ == "__main__":
    sys.exit(main())
