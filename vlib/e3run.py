"""Shared driver of engine E3: native stage -> programs -> certificates (in worker processes)."""
import concurrent.futures as cf
import time

from . import cert, rfc

DENSE_THR, SPARSE_THR = 60000, 0


def parse_encsolve(text):
    """Output of `rqnative encsolve K thr T` / `plan K T`."""
    out = {"solved": text.startswith("solved") or text.startswith("plan"), "raw_head": text[:60]}
    lines = text.splitlines()
    for i, ln in enumerate(lines):
        if ln.startswith("SRC "):
            out["src"] = [bytes.fromhex(x) for x in ln[4:].split(",")]
        elif ln.startswith("C ") and "C" not in out:
            out["C"] = [bytes.fromhex(x) for x in ln[2:].split(",")]
        elif ln.startswith("OPS") and "program" not in out:
            out["program"] = cert.Program.parse(ln, lines[i + 1])
        elif ln.startswith("plan count="):
            kv = dict(x.split("=") for x in ln.split()[1:])
            out["plan_count"] = int(kv["count"])
            out["deterministic"] = kv["deterministic"] == "1"
    out["records"] = cert.parse_records(text)
    return out


def _worker_enc(args):
    K, ops, reorder, tlimit = args
    prog = cert.Program(ops, reorder)
    t0 = time.time()
    try:
        r = cert.certify_encoder(K, prog, tlimit)
    except Exception as e:
        r = {"status": "error:%s" % str(e)[:200]}
    r["wall_s"] = time.time() - t0
    return r


def _worker_dec(args):
    K, ops, reorder, d_rows, has_hdpc, tlimit = args
    prog = cert.Program(ops, reorder)
    t0 = time.time()
    try:
        r = cert.certify_decoder(K, prog, d_rows, has_hdpc, tlimit)
    except Exception as e:
        r = {"status": "error:%s" % str(e)[:200]}
    r["wall_s"] = time.time() - t0
    return r


def certify_many(jobs, kind, workers, tlimit=1800):
    """jobs: list of (tag, K, program[, d_rows, has_hdpc]); returns {tag: result}. De-duplicates programs."""
    uniq, order = {}, []
    for j in jobs:
        tag, K, prog = j[0], j[1], j[2]
        extra = tuple(j[3:]) if len(j) > 3 else ()
        key = (K, prog.key(), repr(extra))
        if key not in uniq:
            uniq[key] = []
            order.append((key, K, prog, extra))
        uniq[key].append(tag)
    results = {}
    with cf.ProcessPoolExecutor(max(1, workers)) as pool:
        if kind == "enc":
            futs = {pool.submit(_worker_enc, (K, prog.ops, prog.reorder, tlimit)): key for key, K, prog, extra in order}
        else:
            futs = {pool.submit(_worker_dec, (K, prog.ops, prog.reorder, extra[0], extra[1], tlimit)): key for key, K, prog, extra in order}
        for f in cf.as_completed(futs):
            key = futs[f]
            r = f.result()
            r["program_key"] = key[1]
            r["shared_by"] = len(uniq[key])
            for tag in uniq[key]:
                results[tag] = r
    return results, len(order)
