"""Shared plumbing of the /verif checks: scratch space, evidence, known findings, verdicts.

Exit-code contract (see DESIGN.md §7):
  0  every obligation explored held (known findings are printed as KNOWN-FINDING and do not fail)
  1  a violation that reproduces natively and is not listed in known_findings.txt
  2  inconclusive: timeout / out of memory / solver error / counterexample that does not reproduce
"""
import atexit
import json
import os
import shutil
import signal
import subprocess
import sys
import time

VERIF = os.path.dirname(os.path.dirname(os.path.abspath(__file__)))
REPO = os.environ.get("VERIF_REPO", "/repo")
KNOWN_FINDINGS = os.path.join(VERIF, "known_findings.txt")
EVIDENCE_DIR = os.path.join(VERIF, "evidence")
REPLAY_DIR = os.path.join(VERIF, "replays")
HOOK_CFG = "raptorq_verif"

HELD, VIOLATED, INCONCLUSIVE, KNOWN = "held", "violated", "inconclusive", "known-finding"


def offline_env(extra=None):
    env = dict(os.environ)
    env.update({"CARGO_NET_OFFLINE": "true", "GOPROXY": "off", "PIP_NO_INDEX": "1"})
    env.pop("RUSTUP_TOOLCHAIN", None)
    if extra:
        env.update(extra)
    return env


class Scratch:
    """A private directory outside /repo, /verif and /tmp, removed at exit with its build output."""

    def __init__(self, tag):
        base = os.environ.get("VERIF_SCRATCH_BASE", "/var/tmp")
        self.path = os.path.join(base, "rqverif.%s.%d" % (tag, os.getpid()))
        if os.path.exists(self.path):
            shutil.rmtree(self.path, ignore_errors=True)
        os.makedirs(self.path)
        atexit.register(self.cleanup)
        for sig in (signal.SIGTERM, signal.SIGINT, signal.SIGHUP):
            signal.signal(sig, self._on_signal)

    def _on_signal(self, signum, frame):
        self.cleanup()
        os._exit(2)

    def cleanup(self):
        if os.environ.get("VERIF_KEEP_SCRATCH"):
            return
        shutil.rmtree(self.path, ignore_errors=True)

    def sub(self, name):
        p = os.path.join(self.path, name)
        os.makedirs(p, exist_ok=True)
        return p


class Obligation:
    def __init__(self, name, status, detail="", time_s=0.0, engine="", extra=None):
        self.name, self.status, self.detail = name, status, detail
        self.time_s, self.engine, self.extra = time_s, engine, extra or {}

    def to_json(self):
        d = {"name": self.name, "status": self.status, "engine": self.engine,
             "solver_time_s": round(self.time_s, 3)}
        if self.detail:
            d["detail"] = self.detail[:600]
        d.update(self.extra)
        return d


class Violation:
    """A counterexample that reproduced natively. `key` is what known_findings.txt matches on."""

    def __init__(self, key, what, replay):
        self.key, self.what, self.replay = key, what, replay


def load_known_findings(pid):
    """Lines `known: property=<id> <key> -- free text`; `fixed:` lines suppress nothing."""
    keys = {}
    if os.path.exists(KNOWN_FINDINGS):
        for line in open(KNOWN_FINDINGS):
            line = line.strip()
            if not line.startswith("known:"):
                continue
            body = line[len("known:"):].strip()
            parts = body.split(None, 1)
            if not parts or parts[0] != "property=%s" % pid:
                continue
            rest = parts[1] if len(parts) > 1 else ""
            key, _, text = rest.partition(" -- ")
            keys[key.strip()] = text.strip()
    return keys


def write_replay(pid, name, obj):
    os.makedirs(REPLAY_DIR, exist_ok=True)
    path = os.path.join(REPLAY_DIR, "%s_%s.json" % (pid, name))
    with open(path, "w") as f:
        json.dump(obj, f, indent=1, sort_keys=True)
    return path


class Report:
    """Collects obligations/violations of one property run and turns them into evidence + exit code."""

    def __init__(self, pid, tier, level, seed):
        self.pid, self.tier, self.level, self.seed = pid, tier, level, seed
        self.t0 = time.time()
        self.obligations = []
        self.violations = []
        self.assumptions = []
        self.coverage = {}
        self.functions = []
        self.bounds = {}
        self.outside = []
        self.stubs = []

    def add(self, ob):
        self.obligations.append(ob)
        return ob

    def held(self, name, detail="", time_s=0.0, engine="", **extra):
        return self.add(Obligation(name, HELD, detail, time_s, engine, extra))

    def inconclusive(self, name, detail="", time_s=0.0, engine="", **extra):
        return self.add(Obligation(name, INCONCLUSIVE, detail, time_s, engine, extra))

    def violated(self, name, key, what, replay_obj, time_s=0.0, engine="", **extra):
        path = write_replay(self.pid, name.replace("/", "_").replace(" ", "_")[:80], replay_obj)
        self.add(Obligation(name, VIOLATED, what, time_s, engine, extra))
        self.violations.append(Violation(key, what, path))

    def finish(self):
        known = load_known_findings(self.pid)
        unlisted = [v for v in self.violations if v.key not in known]
        listed = [v for v in self.violations if v.key in known]
        inconc = [o for o in self.obligations if o.status == INCONCLUSIVE]
        n = len(self.obligations)
        discharged = sum(1 for o in self.obligations if o.status == HELD)
        cov = dict(self.coverage)
        cov.setdefault("obligations", n)
        cov.setdefault("discharged", discharged)
        cov.setdefault("evaluations", max(n, 1))
        names = {o.name for o in self.obligations}
        cov.setdefault("distinct_nontrivial", len(names))
        cov.setdefault("rule", "one evaluation = one solver obligation (a harness or an SMT query over "
                               "symbolic inputs); distinct = distinct obligation names; every one is "
                               "non-trivial because each has a reachability/vacuity witness")
        cov.setdefault("samples", [o.to_json() for o in self.obligations[:12]])
        cov["functions_encoded"] = self.functions
        cov["bounds"] = self.bounds
        cov["outside_the_claim"] = self.outside
        cov["stubs_and_models"] = self.stubs
        cov["solver_time_s"] = round(sum(o.time_s for o in self.obligations), 2)
        cov["all_obligations"] = [o.to_json() for o in self.obligations]
        cov["inconclusive"] = len(inconc)
        cov["known_findings_hit"] = [v.key for v in listed]
        if self.level == "model_checking":
            cov.setdefault("states", max(n, 1))
            cov.setdefault("transitions", max(n, 1))
            cov.setdefault("traces_validated_against_impl", len(self.violations))
            cov.setdefault("explanation_of_states",
                           "symbolic engines do not enumerate states; 'states'/'transitions' count "
                           "solver obligations, each covering every input inside its stated bound")
        if self.level == "translation_validation":
            cov.setdefault("programs", max(n, 1))
            cov.setdefault("disagreements_checked", len(self.violations))
        ev = {
            "property_id": self.pid, "tier": self.tier, "seed": self.seed, "level": self.level,
            "coverage": cov, "assumptions": self.assumptions,
            "wall_s": round(time.time() - self.t0, 2), "violations": len(unlisted),
        }
        os.makedirs(EVIDENCE_DIR, exist_ok=True)
        tmp = os.path.join(EVIDENCE_DIR, ".%s.json.tmp" % self.pid)
        with open(tmp, "w") as f:
            json.dump(ev, f, indent=1)
        os.replace(tmp, os.path.join(EVIDENCE_DIR, "%s.json" % self.pid))
        for v in listed:
            print("KNOWN-FINDING: property=%s %s -- %s" % (self.pid, v.key, v.what))
        for o in inconc:
            print("INCONCLUSIVE property=%s obligation=%s %s" % (self.pid, o.name, o.detail[:300]))
        for v in unlisted:
            print("VIOLATION property=%s replay=%s" % (self.pid, v.replay))
            print("  what: %s" % v.what)
        print("%s tier=%s obligations=%d held=%d violated=%d(known %d) inconclusive=%d wall=%.1fs" % (
            self.pid, self.tier, n, discharged, len(self.violations), len(listed), len(inconc),
            time.time() - self.t0))
        sys.stdout.flush()
        if unlisted:
            return 1
        if inconc:
            return 2
        return 0


def run(cmd, cwd=None, env=None, timeout=None, mem_gb=None, stdin=None):
    """Run a command, return (rc, output, seconds). rc = -9 on timeout."""
    pre = None
    if mem_gb:
        import resource

        def pre():
            lim = int(mem_gb * (1 << 30))
            resource.setrlimit(resource.RLIMIT_AS, (lim, lim))
            os.setsid()
    else:
        pre = os.setsid
    t0 = time.time()
    p = subprocess.Popen(cmd, cwd=cwd, env=env or offline_env(), stdout=subprocess.PIPE,
                         stderr=subprocess.STDOUT, stdin=subprocess.PIPE if stdin is not None else None,
                         preexec_fn=pre, text=True)
    try:
        out, _ = p.communicate(stdin, timeout=timeout)
        rc = p.returncode
    except subprocess.TimeoutExpired:
        try:
            os.killpg(p.pid, signal.SIGKILL)
        except ProcessLookupError:
            pass
        out, _ = p.communicate()
        rc = -9
    return rc, out, time.time() - t0


def repo_head():
    rc, out, _ = run(["git", "-C", REPO, "rev-parse", "HEAD"])
    rc2, out2, _ = run(["git", "-C", REPO, "status", "--porcelain", "--", "src", "Cargo.toml"])
    return out.strip() + ("+dirty" if out2.strip() else "")
