"""Engine E3: translation validation of the operation programs emitted by the real PI solver.

A *program* is the list of (kind, dest, src, scalar) symbol operations plus the final reorder map that
`IntermediateSymbolDecoder::execute` returned on a concrete run (recorded by the cfg-guarded hook).
It touches symbol data only through these operations, so its effect on *every* data vector is decided
symbolically: each symbol is 8 variables over F_2, xor is field addition, multiplication by the
constant c is the 8x8 F_2 matrix of c in GF(2)[x]/(x^8+x^4+x^3+x^2+1), and every operation result is
named by fresh variables (cvc5's finite-field theory then closes the query by substitution).

  encoder form : D = [0^(S+H), source symbols (symbolic), 0 padding]; C := program(D);
                 assert some bit of A_rfc*C - D is non-zero.  unsat => for all data C satisfies every
                 LDPC, HDPC and LT relation of RFC 6330 (and A_rfc is invertible: M*A... see DESIGN E3).
  decoder form : C* symbolic; D := A_rfc[rows]*C*; C := program(D); assert C != C*.  unsat => the
                 program recovers the intermediate symbols from any consistent received set.
"""
import time

from . import rfc


class Program:
    def __init__(self, ops, reorder):
        self.ops = ops            # list of (kind, dest, src, scalar)
        self.reorder = reorder    # list: logical index -> physical row of D

    @staticmethod
    def parse(ops_line, reorder_line):
        ops = []
        body = ops_line.strip()
        if body.startswith("OPS"):
            body = body[3:].strip()
        if body:
            for item in body.split(";"):
                if item:
                    k, d, s, c = item.split(",")
                    ops.append((int(k), int(d), int(s), int(c)))
        rbody = reorder_line.strip()
        if rbody.startswith("REORDER"):
            rbody = rbody[len("REORDER"):].strip()
        reorders = []
        if rbody:
            for part in rbody.split("|"):
                pos, _, order = part.partition(":")
                reorders.append((int(pos), [int(x) for x in order.split()]))
        if len(reorders) != 1 or reorders[0][0] != len(ops):
            raise ValueError("expected exactly one Reorder at the end of the program, got %s" % [(p, len(o)) for p, o in reorders])
        return Program(ops, reorders[0][1])

    def key(self):
        import hashlib
        h = hashlib.sha256()
        h.update(repr(self.ops).encode())
        h.update(repr(self.reorder).encode())
        return h.hexdigest()[:16]


def parse_records(text):
    """Parse the RECORD blocks printed by /verif/native."""
    recs = []
    lines = text.splitlines()
    i = 0
    while i < len(lines):
        ln = lines[i]
        if ln.startswith("RECORD "):
            kv = dict(x.split("=") for x in ln.split()[1:])
            rec = {k: int(v) for k, v in kv.items()}
            i += 1
            rec["D"] = bytes.fromhex(lines[i][2:].strip()) if lines[i].startswith("D ") else b""
            i += 1
            rec["program"] = None
            if i + 1 < len(lines) and lines[i].startswith("OPS"):
                rec["program"] = Program.parse(lines[i], lines[i + 1])
                i += 2
            recs.append(rec)
        i += 1
    return recs


# ---- concrete evaluation (replay / cross-check) -----------------------------------------------------

def run_program_concrete(prog, D, T):
    """Apply the program to concrete symbols (list of bytearrays); returns C in logical order."""
    D = [bytearray(d) for d in D]
    for k, d, s, c in prog.ops:
        if k == 0:
            D[d] = bytearray(x ^ y for x, y in zip(D[d], D[s]))
        elif k == 1:
            D[d] = bytearray(rfc.gf_mul(x, c) for x in D[d])
        else:
            D[d] = bytearray(x ^ rfc.gf_mul(y, c) for x, y in zip(D[d], D[s]))
    return [bytes(D[p]) for p in prog.reorder]


def check_system_concrete(p, C, rows_isi, D_rows, T, with_hdpc=True):
    """A_rfc * C == D for LDPC (0), HDPC (0) and the given LT rows. Returns list of failing row names."""
    bad = []
    zero = bytes(T)
    for i, r in enumerate(rfc.ldpc_rows(p)):
        acc = bytearray(T)
        for c in r:
            for k in range(T):
                acc[k] ^= C[c][k]
        if bytes(acc) != zero:
            bad.append("ldpc%d" % i)
    if with_hdpc:
        for i, r in enumerate(rfc.hdpc_rows(p)):
            acc = bytearray(T)
            for c, coef in enumerate(r):
                if coef:
                    cc = C[c]
                    for k in range(T):
                        acc[k] ^= rfc.gf_mul(cc[k], coef)
            if bytes(acc) != zero:
                bad.append("hdpc%d" % i)
    for isi, d in zip(rows_isi, D_rows):
        acc = bytearray(T)
        for c in rfc.lt_row(p, isi):
            for k in range(T):
                acc[k] ^= C[c][k]
        if bytes(acc) != bytes(d):
            bad.append("lt(isi=%d)" % isi)
    return bad


# ---- symbolic (cvc5 finite field over F_2) -----------------------------------------------------------

class FF:
    def __init__(self, tlimit_s=None):
        import cvc5
        from cvc5 import Kind
        self.cvc5, self.Kind = cvc5, Kind
        self.slv = cvc5.Solver()
        self.slv.setLogic("QF_FF")
        if tlimit_s:
            self.slv.setOption("tlimit-per", str(int(tlimit_s * 1000)))
        self.F = self.slv.mkFiniteFieldSort("2")
        self.ZERO = self.slv.mkFiniteFieldElem("0", self.F)
        self.ONE = self.slv.mkFiniteFieldElem("1", self.F)
        self.Z8 = [self.ZERO] * 8
        self.n = 0
        self.nvars = 0
        self._mulmat = {}

    def var8(self, name):
        self.nvars += 8
        return [self.slv.mkConst(self.F, "%s_%d" % (name, b)) for b in range(8)]

    def fadd(self, a, b):
        if a is self.ZERO:
            return b
        if b is self.ZERO:
            return a
        return self.slv.mkTerm(self.Kind.FINITE_FIELD_ADD, a, b)

    def xor8(self, x, y):
        return [self.fadd(x[i], y[i]) for i in range(8)]

    def mulc8(self, c, x):
        if c == 0:
            return self.Z8
        if c == 1:
            return x
        cols = self._mulmat.get(c)
        if cols is None:
            cols = self._mulmat[c] = rfc.gf_matrix_bits(c)
        out = [self.ZERO] * 8
        for i in range(8):
            col = cols[i]
            for k in range(8):
                if (col >> k) & 1:
                    out[k] = self.fadd(out[k], x[i])
        return out

    def name8(self, x):
        out = []
        for t in x:
            if t is self.ZERO or t.getKind() == self.Kind.CONSTANT:
                out.append(t)
                continue
            self.n += 1
            v = self.slv.mkConst(self.F, "t%d" % self.n)
            self.slv.assertFormula(self.slv.mkTerm(self.Kind.EQUAL, v, t))
            out.append(v)
        return out

    def apply(self, prog, D):
        D = list(D)
        for k, d, s, c in prog.ops:
            if k == 0:
                D[d] = self.name8(self.xor8(D[d], D[s]))
            elif k == 1:
                D[d] = self.name8(self.mulc8(c, D[d]))
            else:
                D[d] = self.name8(self.xor8(D[d], self.mulc8(c, D[s])))
        return D

    def assert_some_nonzero(self, vecs):
        bits = []
        for v in vecs:
            for b in self.name8(v):
                if b is self.ZERO:
                    continue
                bits.append(b)
        if not bits:
            return False        # residual is syntactically zero: nothing can differ
        neq = [self.slv.mkTerm(self.Kind.NOT, self.slv.mkTerm(self.Kind.EQUAL, b, self.ZERO)) for b in bits]
        self.slv.assertFormula(self.slv.mkTerm(self.Kind.OR, *neq) if len(neq) > 1 else neq[0])
        return True

    def check(self):
        t0 = time.time()
        try:
            r = self.slv.checkSat()
            if r.isUnsat():
                st = "unsat"
            elif r.isSat():
                st = "sat"
            else:
                st = "unknown"
        except Exception as e:          # this cvc5 build has no CoCoA: the sat side raises
            st = "error:%s" % str(e)[:80]
        return st, time.time() - t0


def rows_times_C(ff, p, C, lt_isis, with_hdpc=True):
    """Symbolic A_rfc * C for [LDPC rows, HDPC rows (optional), LT rows of the given ISIs]."""
    out = []
    for r in rfc.ldpc_rows(p):
        e = ff.Z8
        for c in r:
            e = ff.xor8(e, C[c])
        out.append(e)
    if with_hdpc:
        for r in rfc.hdpc_rows(p):
            e = ff.Z8
            for c, coef in enumerate(r):
                if coef:
                    e = ff.xor8(e, ff.mulc8(coef, C[c]))
            out.append(e)
    for isi in lt_isis:
        e = ff.Z8
        for c in rfc.lt_row(p, isi):
            e = ff.xor8(e, C[c])
        out.append(e)
    return out


def certify_encoder(K, prog, tlimit_s=1800):
    """Encoder form. Returns dict(status, build_s, solve_s, vars, ops)."""
    p = rfc.Params(K)
    t0 = time.time()
    ff = FF(tlimit_s)
    src = [ff.var8("s%d" % i) for i in range(K)]
    D0 = [ff.Z8] * (p.S + p.H) + src + [ff.Z8] * (p.Kp - K)
    if len(prog.reorder) != p.L or max(prog.reorder) >= len(D0):
        return {"status": "malformed", "detail": "reorder map of length %d for L=%d" % (len(prog.reorder), p.L)}
    if any(max(d, s) >= len(D0) for _, d, s, _ in prog.ops):
        return {"status": "malformed", "detail": "operation index outside D"}
    D = ff.apply(prog, D0)
    C = [D[prog.reorder[i]] for i in range(p.L)]
    AC = rows_times_C(ff, p, C, range(p.Kp), True)
    res = [ff.xor8(a, d) for a, d in zip(AC, D0)]
    nontrivial = ff.assert_some_nonzero(res)
    build = time.time() - t0
    if not nontrivial:
        return {"status": "unsat", "build_s": build, "solve_s": 0.0, "vars": ff.nvars + ff.n, "ops": len(prog.ops), "note": "residual syntactically zero"}
    st, dt = ff.check()
    return {"status": st, "build_s": build, "solve_s": dt, "vars": ff.nvars + ff.n, "ops": len(prog.ops)}


def certify_decoder(K, prog, d_rows, has_hdpc, tlimit_s=1800):
    """Decoder form. d_rows: for every row of the slab handed to the solver, ('zero',) for a constraint
    row or ('isi', X) for the LT row of internal symbol id X, in slab order."""
    p = rfc.Params(K)
    t0 = time.time()
    ff = FF(tlimit_s)
    Cs = [ff.var8("c%d" % i) for i in range(p.L)]
    nconstraint = p.S + (p.H if has_hdpc else 0)
    kinds = [r[0] for r in d_rows]
    if kinds[:nconstraint] != ["zero"] * nconstraint or any(k != "isi" for k in kinds[nconstraint:]):
        return {"status": "malformed", "detail": "slab layout is not [constraint rows, LT rows]: %s" % kinds[:nconstraint + 3]}
    isis = [r[1] for r in d_rows[nconstraint:]]
    AC = rows_times_C(ff, p, Cs, isis, has_hdpc)
    D0 = [ff.name8(x) for x in AC]
    if len(prog.reorder) != p.L or max(prog.reorder) >= len(D0) or any(max(d, s) >= len(D0) for _, d, s, _ in prog.ops):
        return {"status": "malformed", "detail": "program indexes outside the slab"}
    D = ff.apply(prog, D0)
    C = [D[prog.reorder[i]] for i in range(p.L)]
    res = [ff.xor8(a, b) for a, b in zip(C, Cs)]
    nontrivial = ff.assert_some_nonzero(res)
    build = time.time() - t0
    if not nontrivial:
        return {"status": "unsat", "build_s": build, "solve_s": 0.0, "vars": ff.nvars + ff.n, "ops": len(prog.ops)}
    st, dt = ff.check()
    return {"status": st, "build_s": build, "solve_s": dt, "vars": ff.nvars + ff.n, "ops": len(prog.ops)}


# ---- bit-vector form for counterexamples (z3) ----------------------------------------------------------

def z3_encoder_counterexample(K, prog, timeout_s=300):
    """Find source bytes on which the program's output violates the RFC system. Returns list of ints or None."""
    import z3
    p = rfc.Params(K)

    def mulc(c, x):
        acc = z3.BitVecVal(0, 8)
        cc = c
        for i in range(8):
            acc = acc ^ z3.If(z3.Extract(i, i, x) == 1, z3.BitVecVal(cc, 8), z3.BitVecVal(0, 8))
            cc <<= 1
            if cc & 0x100:
                cc ^= 0x11D
        return acc
    zero = z3.BitVecVal(0, 8)
    src = [z3.BitVec("s%d" % i, 8) for i in range(K)]
    D0 = [zero] * (p.S + p.H) + src + [zero] * (p.Kp - K)
    D = list(D0)
    for k, d, s, c in prog.ops:
        if k == 0:
            D[d] = D[d] ^ D[s]
        elif k == 1:
            D[d] = mulc(c, D[d])
        else:
            D[d] = D[d] ^ mulc(c, D[s])
    C = [D[prog.reorder[i]] for i in range(p.L)]
    bad = []
    rows = [(r, None) for r in rfc.ldpc_rows(p)]
    i = 0
    for r in rfc.ldpc_rows(p):
        e = zero
        for c in r:
            e = e ^ C[c]
        bad.append(e != D0[i])
        i += 1
    for r in rfc.hdpc_rows(p):
        e = zero
        for c, coef in enumerate(r):
            if coef:
                e = e ^ mulc(coef, C[c])
        bad.append(e != D0[i])
        i += 1
    for X in range(p.Kp):
        e = zero
        for c in rfc.lt_row(p, X):
            e = e ^ C[c]
        bad.append(e != D0[i])
        i += 1
    s = z3.Solver()
    s.set("timeout", timeout_s * 1000)
    s.add(z3.Or(*bad))
    if s.check() == z3.sat:
        m = s.model()
        return [m.eval(x, model_completion=True).as_long() for x in src]
    return None


# ---- rank / kernel over GF(256) (witness generation; witnesses are checked by evaluation) ---------------

def gf_matrix(p, isis, with_hdpc=True):
    A = []
    for r in rfc.ldpc_rows(p):
        row = [0] * p.L
        for c in r:
            row[c] = 1
        A.append(row)
    if with_hdpc:
        A.extend(list(r) for r in rfc.hdpc_rows(p))
    for X in isis:
        row = [0] * p.L
        for c in rfc.lt_row(p, X):
            row[c] = 1
        A.append(row)
    return A


def kernel_vector(A, L):
    """Non-zero C with A*C = 0 over GF(256), or None when A has full column rank (Gaussian elimination)."""
    A = [list(r) for r in A]
    n = len(A)
    piv_of_col = {}
    r = 0
    for col in range(L):
        sel = next((i for i in range(r, n) if A[i][col]), None)
        if sel is None:
            continue
        A[r], A[sel] = A[sel], A[r]
        inv = rfc.gf_inv(A[r][col])
        if inv != 1:
            A[r] = [rfc.gf_mul(x, inv) for x in A[r]]
        for i in range(n):
            if i != r and A[i][col]:
                f = A[i][col]
                Ar = A[r]
                A[i] = [x ^ rfc.gf_mul(f, y) if y else x for x, y in zip(A[i], Ar)]
        piv_of_col[col] = r
        r += 1
        if r == n:
            break
    free = [c for c in range(L) if c not in piv_of_col]
    if not free:
        return None
    f0 = free[0]
    C = [0] * L
    C[f0] = 1
    for col, row in piv_of_col.items():
        C[col] = A[row][f0]       # pivot var = - coefficient * free var (char 2: minus = plus)
    return C


def check_kernel(A, C):
    for row in A:
        acc = 0
        for a, c in zip(row, C):
            if a and c:
                acc ^= rfc.gf_mul(a, c)
        if acc:
            return False
    return any(C)
