"""Engine E2: path-wise symbolic execution of rustc's MIR dump of /repo's current source.

`dump_mir(scratch, overflow_checks)` runs `cargo +nightly rustc -- -Zunpretty=mir` on a scratch copy
of /repo/src; `Mir(text)` parses the items; `Exec(mir).call(fn, args)` returns the list of outcomes
(path condition, kind in {ret, panic, cut}, value/message) over sx terms.
"""
import os
import re
import shutil

from . import sx
from .common import REPO, run, offline_env

MIR_CARGO_TOML = """[package]
name = "raptorq"
version = "0.0.0-verif-mir"
edition = "2024"
[lib]
crate-type = ["lib"]
[dependencies]
[features]
default = ["std"]
benchmarking = ["std"]
std = []
[workspace]
[lints.rust]
unexpected_cfgs = { level = "allow" }
"""


def dump_mir(scratch_dir, overflow_checks=True, debug_assertions=False, name=None):
    d = os.path.join(scratch_dir, name or ("mir_oc%d_da%d" % (overflow_checks, debug_assertions)))
    if os.path.exists(d):
        shutil.rmtree(d)
    os.makedirs(d)
    shutil.copytree(os.path.join(REPO, "src"), os.path.join(d, "src"))
    with open(os.path.join(d, "Cargo.toml"), "w") as f:
        f.write(MIR_CARGO_TOML)
    cmd = ["cargo", "+nightly", "rustc", "--offline", "--lib", "--", "-Zunpretty=mir",
           "-C", "debug-assertions=%s" % ("on" if debug_assertions else "off"),
           "-C", "overflow-checks=%s" % ("on" if overflow_checks else "off")]
    env = offline_env()
    import subprocess
    p = subprocess.run(cmd, cwd=d, env=env, capture_output=True, text=True, timeout=600)
    if p.returncode != 0 or len(p.stdout) < 1000:
        raise RuntimeError("MIR dump failed: %s" % p.stderr[-2000:])
    shutil.rmtree(os.path.join(d, "target"), ignore_errors=True)
    return p.stdout


# ------------------------------------------------------------------------------------------------
# Parsing

class Item:
    def __init__(self, kind, name, header):
        self.kind, self.name, self.header = kind, name, header
        self.args = []          # [(local, type)]
        self.ret_type = None
        self.locals = {}        # local -> type string
        self.blocks = {}        # bbN -> [lines]
        self.const_value = None  # for `const X: T = const V;`


_ITEM_FN = re.compile(r"^fn (.+?)\((.*)\) -> (.+?) \{$")
_ITEM_CONST = re.compile(r"^(?:const|static) (.+?): (.+?) = (.*)$")


def split_top(s, sep=","):
    """Split on separators that are not nested in ()[]{}<> or strings."""
    out, depth, cur, i, instr = [], 0, [], 0, False
    while i < len(s):
        c = s[i]
        if instr:
            cur.append(c)
            if c == "\\":
                cur.append(s[i + 1]); i += 1
            elif c == '"':
                instr = False
        elif c == '"':
            instr = True; cur.append(c)
        elif c in "([{<":
            depth += 1; cur.append(c)
        elif c in ")]}":
            depth -= 1; cur.append(c)
        elif c == ">" and i > 0 and s[i - 1] not in "-=":
            depth -= 1; cur.append(c)
        elif c == sep and depth == 0:
            out.append("".join(cur).strip()); cur = []
        else:
            cur.append(c)
        i += 1
    last = "".join(cur).strip()
    if last:
        out.append(last)
    return out


class Mir:
    def __init__(self, text):
        self.items = {}
        self.closures = {}      # "{closure@src/x.rs:L:C: L:C}" -> item name
        self._parse(text)

    def _parse(self, text):
        cur, block = None, None
        for raw in text.splitlines():
            line = raw.rstrip()
            if cur is None:
                m = _ITEM_FN.match(line)
                if m:
                    cur = Item("fn", m.group(1), line)
                    cur.ret_type = m.group(3)
                    for a in split_top(m.group(2)):
                        nm, _, ty = a.partition(": ")
                        cur.args.append((nm.strip(), ty.strip()))
                        cur.locals[nm.strip()] = ty.strip()
                    continue
                m = _ITEM_CONST.match(line)
                if m:
                    left, _, rest = line.partition(" = ")
                    left = re.sub(r"^(?:const|static) ", "", left)
                    name, _, ty = left.rpartition(": ")
                    cur = Item("const", name, line)
                    cur.ret_type = ty
                    if rest.strip() != "{":
                        cur.const_value = rest.rstrip(";").strip()
                        self.items[name] = cur
                        cur = None
                    continue
                continue
            if line == "}":
                self.items[cur.name] = cur
                if cur.kind == "fn" and cur.args:
                    m = re.match(r"&(?:mut )?(\{closure@[^}]*\})", cur.args[0][1])
                    if m and "{closure#" in cur.name:
                        self.closures[m.group(1)] = cur.name
                cur, block = None, None
                continue
            s = line.strip()
            if block is None:
                m = re.match(r"^let (?:mut )?(_\d+): (.+);$", s)
                if m:
                    cur.locals[m.group(1)] = m.group(2)
                    continue
                m = re.match(r"^(bb\d+)(?: \(cleanup\))?: \{$", s)
                if m:
                    block = m.group(1)
                    cur.blocks[block] = []
                continue
            if s == "}":
                block = None
                continue
            if s:
                cur.blocks[block].append(s)

    def crate_modules(self):
        if not hasattr(self, "_mods"):
            self._mods = {f[:-3] for f in os.listdir(os.path.join(REPO, "src")) if f.endswith(".rs")}
        return self._mods

    def find(self, suffix):
        """Item whose name equals `suffix` or ends with `::suffix` (must be unique)."""
        if suffix in self.items:
            return self.items[suffix]
        c = [n for n in self.items if n.endswith("::" + suffix) or n.endswith(">" + suffix)]
        if len(c) == 1:
            return self.items[c[0]]
        if len(c) == 0 and "::" in suffix and suffix.split("::", 1)[0] in self.crate_modules():
            # the dump prints free items without their module path: retry with the crate module stripped
            return self.find(suffix.split("::", 1)[1])
        raise KeyError("item %r: %d candidates %s" % (suffix, len(c), c[:5]))


# ------------------------------------------------------------------------------------------------
# Values

INT_TYPES = {"u8": 8, "u16": 16, "u32": 32, "u64": 64, "usize": 64, "u128": 128,
             "i8": 8, "i16": 16, "i32": 32, "i64": 64, "isize": 64, "i128": 128}


class Int:
    """A machine integer: sx term (the mathematical value, always within the type's range) + type."""
    __slots__ = ("t", "ty")

    def __init__(self, t, ty):
        self.t, self.ty = t, ty

    def __repr__(self):
        return "%r:%s" % (self.t, self.ty)


class Bool:
    __slots__ = ("t",)

    def __init__(self, t):
        self.t = t

    def __repr__(self):
        return "bool(%r)" % (self.t,)


class Agg:
    """tuple / struct / array / closure environment; fields by position, names kept for structs."""

    def __init__(self, kind, fields, names=None, tyname=None):
        self.kind, self.fields, self.names, self.tyname = kind, list(fields), names, tyname

    def __repr__(self):
        return "%s%r" % (self.tyname or self.kind, self.fields)


class Enum:
    def __init__(self, variant, fields=(), tyname=None):
        self.variant, self.fields, self.tyname = variant, list(fields), tyname

    def __repr__(self):
        return "%s(%r)" % (self.variant, self.fields)


class Ref:
    def __init__(self, store, key, proj=()):
        self.store, self.key, self.proj = store, key, tuple(proj)


class ConstArray:
    """A constant array read from a MIR const item (kept by name so look-ups can stay symbolic)."""

    def __init__(self, name, values):
        self.name, self.values = name, values

    def __repr__(self):
        return "<const array %s len %d>" % (self.name, len(self.values))


class Opaque:
    def __init__(self, what):
        self.what = what

    def __repr__(self):
        return "<opaque %s>" % self.what


class RangeIter:
    def __init__(self, cur, end, inclusive, ty, done=False):
        self.cur, self.end, self.inclusive, self.ty, self.done = cur, end, inclusive, ty, done


class SliceIter:
    def __init__(self, arr, lo, hi, rev=False):
        self.arr, self.lo, self.hi, self.rev = arr, lo, hi, rev


class VecVal:
    """A Vec built by the code under execution (new/push with a concrete number of pushes per path)."""

    def __init__(self, items):
        self.items = list(items)

    def __repr__(self):
        return "Vec%r" % (self.items,)


class SliceVal:
    """An opaque slice of which only the length is used."""

    def __init__(self, length):
        self.length = length


class Outcome:
    def __init__(self, cond, kind, value=None, msg=""):
        self.cond, self.kind, self.value, self.msg = cond, kind, value, msg

    def __repr__(self):
        return "<%s %s>" % (self.kind, self.msg or "")


class PathEnd(Exception):
    pass


class Unsupported(Exception):
    pass


# ------------------------------------------------------------------------------------------------
# Place / operand parsing

class P:
    """Parsed place: base local + list of projections."""

    def __init__(self, base, proj):
        self.base, self.proj = base, proj


def parse_place(s):
    s = s.strip()
    pos = 0

    def parse():
        nonlocal pos
        if s[pos] == "(":
            pos += 1
            if s[pos] == "*":
                pos += 1
                base, proj = parse()
                assert s[pos] == ")", s
                pos += 1
                proj = proj + [("deref",)]
            else:
                base, proj = parse()
                if s.startswith(" as ", pos):
                    pos += 4
                    m = re.match(r"[\w:]+", s[pos:])
                    proj = proj + [("downcast", m.group(0))]
                    pos += m.end()
                    assert s[pos] == ")", s
                    pos += 1
                elif s[pos] == ".":
                    pos += 1
                    m = re.match(r"\d+", s[pos:])
                    idx = int(m.group(0))
                    pos += m.end()
                    assert s.startswith(": ", pos), s
                    # skip the type up to the matching ')'
                    depth, j = 0, pos
                    while True:
                        c = s[j]
                        if c in "([{<":
                            depth += 1
                        elif c in "]}" or (c == ">" and s[j - 1] not in "-="):
                            depth -= 1
                        elif c == ")":
                            if depth == 0:
                                break
                            depth -= 1
                        j += 1
                    ty = s[pos + 2:j]
                    pos = j + 1
                    proj = proj + [("field", idx, ty)]
                else:
                    raise Unsupported("place %r at %d" % (s, pos))
        else:
            m = re.match(r"_\d+", s[pos:])
            if not m:
                raise Unsupported("place %r" % s)
            base, proj = m.group(0), []
            pos += m.end()
        # postfix: .N (rare, untyped), [idx]
        while pos < len(s):
            if s[pos] == "[":
                j = s.index("]", pos)
                inner = s[pos + 1:j]
                proj = proj + [("index", inner)]
                pos = j + 1
            else:
                break
        return base, proj

    base, proj = parse()
    if pos != len(s):
        raise Unsupported("trailing text in place %r" % s)
    return P(base, proj)


# ------------------------------------------------------------------------------------------------
# Executor

class Exec:
    def __init__(self, mir, loop_bound=600, contracts=None, models=None, symbolic_tables=()):
        self.mir = mir
        self.loop_bound = loop_bound
        self.contracts = contracts or {}
        self.extra_models = models or {}
        self.const_cache = {}
        self.symbolic_tables = set(symbolic_tables)   # const arrays looked up through uf()
        self.models_used = set()
        self.functions_executed = set()
        self.cuts = []
        self.depth = 0
        self.item_stack = []
        self.closure_contract = None

    # ---- entry point -------------------------------------------------------------------------
    def call(self, fname, args):
        item = self.mir.find(fname) if isinstance(fname, str) else fname
        return self._run_item(item, args)

    def _run_item(self, item, args):
        self.functions_executed.add(item.name)
        self.item_stack.append(item)
        try:
            return self._run_item_inner(item, args)
        finally:
            self.item_stack.pop()

    def _run_item_inner(self, item, args):
        outcomes = []
        frame0 = {}
        for (nm, ty), v in zip(item.args, args):
            frame0[nm] = v
        # worklist of (block, frame, pathcond, visits)
        work = [("bb0", frame0, sx.TRUE, {})]
        self.depth += 1
        if self.depth > 40:
            raise Unsupported("call depth")
        while work:
            bb, frame, pc, visits = work.pop()
            while True:
                n = visits.get(bb, 0) + 1
                if n > self.loop_bound:
                    outcomes.append(Outcome(pc, "cut", None, "loop bound %d exceeded in %s %s" % (self.loop_bound, item.name, bb)))
                    break
                visits = dict(visits)
                visits[bb] = n
                lines = item.blocks[bb]
                try:
                    for ln in lines[:-1]:
                        self._stmt(item, frame, ln)
                    ln = lines[-1]
                    nxt = self._terminator(item, frame, pc, ln, outcomes)
                except (Unsupported, AttributeError, KeyError, IndexError, TypeError, ValueError) as e:
                    if isinstance(e, Unsupported) and getattr(e, "located", False):
                        raise
                    u = Unsupported("%s in %s %s: `%s`" % (e, item.name, bb, ln))
                    u.located = True
                    raise u from e
                if nxt is None:
                    break
                if len(nxt) == 1:
                    bb, frame, pc = nxt[0]
                    continue
                for tb, tf, tpc in nxt[1:]:
                    work.append((tb, tf, tpc, visits))
                bb, frame, pc = nxt[0]
        self.depth -= 1
        return outcomes

    # ---- statements --------------------------------------------------------------------------
    def _stmt(self, item, frame, ln):
        if ln.startswith(("StorageLive", "StorageDead", "nop", "FakeRead", "PlaceMention", "Retag",
                          "AscribeUserType", "Coverage", "ConstEvalCounter", "BackwardIncompatibleDropHint")):
            return
        if ln.startswith("//"):
            return
        m = re.match(r"^(.+?) = (.+);$", ln)
        if not m:
            if ln.startswith("discriminant("):
                raise Unsupported("SetDiscriminant: " + ln)
            raise Unsupported("statement: " + ln)
        lhs, rhs = m.group(1), m.group(2)
        place = parse_place(lhs)
        ty = self._place_type(item, place)
        val = self._rvalue(item, frame, rhs, ty)
        self._write(item, frame, place, val)

    def _place_type(self, item, place):
        ty = item.locals.get(place.base)
        for p in place.proj:
            if p[0] == "field" and p[2]:
                ty = p[2]
            elif p[0] == "deref" and ty:
                ty = re.sub(r"^&(mut )?", "", ty)
            elif p[0] == "index" and ty:
                m = re.match(r"^\[(.+); .+\]$", ty)
                ty = m.group(1) if m else None
            else:
                ty = None
        return ty

    def _read_place(self, item, frame, place):
        if place.base not in frame:
            raise Unsupported("read of unset local %s in %s" % (place.base, item.name))
        v = frame[place.base]
        for p in place.proj:
            v = self._project(item, frame, v, p)
        return v

    def _project(self, item, frame, v, p):
        if p[0] == "deref":
            if isinstance(v, Ref):
                x = v.store[v.key]
                for q in v.proj:
                    x = self._project(item, frame, x, q)
                return x
            return v        # references to constants are represented by the value itself
        if p[0] == "field":
            if isinstance(v, (Agg, Enum)):
                return v.fields[p[1]]
            if isinstance(v, RangeIter):
                return v
            raise Unsupported("field of %r" % (v,))
        if p[0] == "downcast":
            return v
        if p[0] == "index":
            idx = self._read_place(item, frame, parse_place(p[1])) if p[1].startswith("_") else None
            if idx is None:
                raise Unsupported("index %r" % (p,))
            return self._index(v, idx)
        raise Unsupported("projection %r" % (p,))

    def _index(self, arr, idx):
        it = idx.t
        if isinstance(arr, ConstArray):
            if sx.is_const(it):
                return arr.values[sx.cval(it)]
            first = arr.values[0]
            if isinstance(first, Int):
                vals = [sx.cval(x.t) for x in arr.values]
                if arr.name in self.symbolic_tables:
                    return Int(sx.uf(arr.name.replace("::", "_"), it, INT_TYPES[first.ty]), first.ty)
                return Int(sx.select_const_array(arr.name.replace("::", "_"), vals, it, INT_TYPES[first.ty]), first.ty)
            raise Unsupported("symbolic index into array of aggregates")
        if isinstance(arr, Agg):
            if sx.is_const(it):
                return arr.fields[sx.cval(it)]
            # symbolic index into a small local array of ints: ite chain
            res = None
            for i in reversed(range(len(arr.fields))):
                f = arr.fields[i]
                if not isinstance(f, Int):
                    raise Unsupported("symbolic index into non-int array")
                res = f.t if res is None else sx.ite(sx.eq(it, sx.const(i)), f.t, res)
            return Int(res, arr.fields[0].ty)
        raise Unsupported("index into %r" % (arr,))

    def _write(self, item, frame, place, val):
        if not place.proj:
            frame[place.base] = val
            return
        # write through projections: copy-on-write of aggregates along the path
        def upd(cur, proj):
            if not proj:
                return val
            p = proj[0]
            if p[0] == "deref":
                if isinstance(cur, Ref):
                    tgt = cur.store[cur.key]
                    cur.store[cur.key] = upd_path(tgt, list(cur.proj) + list(proj[1:]))
                    return cur
                raise Unsupported("write through non-ref")
            if p[0] == "field":
                if isinstance(cur, Agg):
                    nf = list(cur.fields)
                    nf[p[1]] = upd(nf[p[1]], proj[1:])
                    return Agg(cur.kind, nf, cur.names, cur.tyname)
                if isinstance(cur, Enum):
                    nf = list(cur.fields)
                    nf[p[1]] = upd(nf[p[1]], proj[1:])
                    return Enum(cur.variant, nf, cur.tyname)
                if cur is None or isinstance(cur, Opaque):
                    nf = [None] * (p[1] + 1)
                    nf[p[1]] = upd(None, proj[1:])
                    return Agg("tuple", nf)
                raise Unsupported("field write into %r" % (cur,))
            if p[0] == "downcast":
                return upd(cur, proj[1:])
            if p[0] == "index":
                idx = self._read_place(item, frame, parse_place(p[1]))
                if not sx.is_const(idx.t):
                    raise Unsupported("symbolic index write")
                nf = list(cur.fields)
                nf[sx.cval(idx.t)] = upd(nf[sx.cval(idx.t)], proj[1:])
                return Agg(cur.kind, nf, cur.names, cur.tyname)
            raise Unsupported("write projection %r" % (p,))

        def upd_path(cur, proj):
            return upd(cur, proj)

        frame[place.base] = upd(frame.get(place.base), place.proj)

    # ---- operands / rvalues --------------------------------------------------------------------
    def _operand(self, item, frame, s):
        s = s.strip()
        if s.startswith("copy ") or s.startswith("move "):
            return self._read_place(item, frame, parse_place(s[5:]))
        if s.startswith("no_retag copy "):
            return self._read_place(item, frame, parse_place(s[len("no_retag copy "):]))
        if s.startswith("const "):
            return self._const(s[6:].strip())
        raise Unsupported("operand %r" % s)

    def _const(self, s):
        if s == "true":
            return Bool(sx.TRUE)
        if s == "false":
            return Bool(sx.FALSE)
        m = re.match(r"^(-?\d+)_([iu](?:8|16|32|64|128|size))$", s)
        if m:
            return Int(sx.const(int(m.group(1))), m.group(2))
        if s.startswith('"') or s.startswith("b\""):
            return Opaque(s)
        if s == "()":
            return Agg("tuple", [])
        # named const / promoted
        name = s
        m = re.search(r"::(promoted\[\d+\])$", s)
        if m and self.item_stack:
            cand = self.item_stack[-1].name + "::" + m.group(1)
            if cand in self.mir.items:
                name = cand
        if name in self.const_cache:
            return self.const_cache[name]
        try:
            it = self.mir.find(name)
        except KeyError:
            return Opaque("const " + s)
        if it.kind != "const":
            return Opaque("fn item " + s)
        if it.const_value is not None:
            v = self._const(re.sub(r"^const ", "", it.const_value))
        else:
            outs = self._run_item(it, [])
            rets = [o for o in outs if o.kind == "ret"]
            if len(rets) != 1 or len(outs) != 1:
                raise Unsupported("const body of %s has %d outcomes" % (name, len(outs)))
            v = rets[0].value
        if isinstance(v, Agg) and v.kind == "array" and len(v.fields) >= 8:
            v = ConstArray(it.name, v.fields)
        self.const_cache[name] = v
        return v

    def _rvalue(self, item, frame, rhs, dest_ty):
        rhs = rhs.strip()
        # binary / unary operators
        m = re.match(r"^(\w+)\((.*)\)$", rhs)
        if m and m.group(1) in BINOPS:
            a, b = split_top(m.group(2))
            return self._binop(m.group(1), self._operand(item, frame, a), self._operand(item, frame, b), dest_ty)
        if m and m.group(1) == "Not":
            v = self._operand(item, frame, m.group(2))
            if isinstance(v, Bool):
                return Bool(sx.not_(v.t))
            bits = INT_TYPES[v.ty]
            return Int(sx.sub(sx.const((1 << bits) - 1), v.t), v.ty)
        if m and m.group(1) == "discriminant":
            v = self._read_place(item, frame, parse_place(m.group(2)))
            if isinstance(v, Enum):
                idx = {"None": 0, "Some": 1, "Ok": 0, "Err": 1}.get(v.variant)
                if idx is None:
                    raise Unsupported("discriminant of %r" % v)
                return Int(sx.const(idx), "isize")
            raise Unsupported("discriminant of %r" % (v,))
        if m and m.group(1) in ("PtrMetadata", "Len"):
            inner = m.group(2)
            v = self._operand(item, frame, inner) if inner.startswith(("copy", "move", "const")) else \
                self._read_place(item, frame, parse_place(inner))
            if isinstance(v, Ref):
                v = self._project(item, frame, v, ("deref",))
            if isinstance(v, ConstArray):
                return Int(sx.const(len(v.values)), "usize")
            if isinstance(v, Agg):
                return Int(sx.const(len(v.fields)), "usize")
            if isinstance(v, SliceVal):
                return Int(v.length, "usize")
            raise Unsupported("PtrMetadata of %r" % (v,))
        # casts
        m = re.match(r"^(.*) as (.+?) \((\w+)(?:\(.*\))?\)$", rhs)
        if m:
            v = self._operand(item, frame, m.group(1))
            ty, kind = m.group(2), m.group(3)
            if kind == "IntToInt":
                if isinstance(v, Bool):
                    return Int(sx.ite(v.t, sx.const(1), sx.const(0)), ty)
                if ty.startswith("i") or v.ty.startswith("i"):
                    if sx.is_const(v.t) and sx.cval(v.t) >= 0:
                        return Int(v.t, ty)
                    raise Unsupported("signed cast " + rhs)
                return Int(sx.mod2(v.t, INT_TYPES[ty]), ty)
            if kind in ("PointerCoercion", "Transmute", "PtrToPtr"):
                return v
            raise Unsupported("cast " + rhs)
        # references
        m = re.match(r"^&(?:mut |raw const |raw mut )?(.+)$", rhs)
        if m and not rhs.startswith("&&"):
            pl = parse_place(m.group(1))
            # a reference to a (projection of a) local: deref projections are resolved now
            if pl.proj and pl.proj[0][0] == "deref" and isinstance(frame.get(pl.base), Ref):
                r = frame[pl.base]
                return Ref(r.store, r.key, list(r.proj) + list(pl.proj[1:]))
            if any(p[0] == "deref" for p in pl.proj):
                # reference into a constant / value-represented reference: snapshot the value
                return self._read_place(item, frame, pl)
            return Ref(frame, pl.base, pl.proj)
        # aggregates
        if rhs.startswith("(") and not rhs.startswith("(*"):
            inner = rhs[1:-1]
            parts = split_top(inner)
            if rhs.endswith(",)"):
                parts = split_top(inner.rstrip(","))
            return Agg("tuple", [self._operand(item, frame, p) for p in parts])
        if rhs.startswith("["):
            inner = rhs[1:-1]
            m2 = re.match(r"^(.*); (.+)$", inner)
            if m2 and len(split_top(inner)) == 1 and not inner.startswith("const") or (m2 and split_top(inner, ";") and len(split_top(inner, ";")) == 2 and len(split_top(inner)) == 1):
                el, n = split_top(inner, ";")
                nv = self._const_usize(n)
                v = self._operand(item, frame, el)
                return Agg("array", [v] * nv)
            return Agg("array", [self._operand(item, frame, p) for p in split_top(inner)])
        if rhs.startswith(("copy ", "move ", "const ", "no_retag ")):
            return self._operand(item, frame, rhs)
        m = re.match(r"^(\{closure@[^}]*\})(?: \{(.*)\})?$", rhs)
        if m:
            fields = []
            if m.group(2):
                for part in split_top(m.group(2).strip()):
                    nm, _, op = part.partition(": ")
                    fields.append(self._operand(item, frame, op))
            return Agg("closure", fields, tyname=m.group(1))
        m = re.match(r"^([\w:<>' ,&\[\]();]+?) \{ (.*) \}$", rhs)
        if m:
            names, fields = [], []
            for part in split_top(m.group(2)):
                nm, _, op = part.partition(": ")
                names.append(nm)
                fields.append(self._operand(item, frame, op))
            tyname = re.sub(r"::<.*>", "", m.group(1)).split("::")[-1]
            if tyname in ("Range", "RangeInclusive"):
                return Agg("struct", fields, names, tyname)
            return Agg("struct", fields, names, tyname)
        m = re.match(r"^([\w:]+?)(?:::<.*>)?::(\w+)(?:\((.*)\))?$", rhs)
        if m:
            fields = [self._operand(item, frame, p) for p in split_top(m.group(3))] if m.group(3) else []
            return Enum(m.group(2), fields, m.group(1))
        raise Unsupported("rvalue %r" % rhs)

    def _const_usize(self, s):
        s = s.strip()
        if s.startswith("const "):
            s = s[6:]
        m = re.match(r"^(\d+)(?:_usize)?$", s)
        if m:
            return int(m.group(1))
        v = self._const(s)
        return sx.cval(v.t)

    def _binop(self, op, a, b, dest_ty):
        if op in ("Eq", "Ne") and isinstance(a, Bool):
            r = sx.eq(a.t, b.t)
            return Bool(r if op == "Eq" else sx.not_(r))
        if op in ("BitAnd", "BitOr", "BitXor") and isinstance(a, Bool):
            f = {"BitAnd": sx.and_, "BitOr": sx.or_}.get(op)
            if f:
                return Bool(f(a.t, b.t))
            return Bool(sx.not_(sx.eq(a.t, b.t)))
        x, y, ty = a.t, b.t, a.ty
        if ty.startswith("i") and not (sx.is_const(x) and sx.is_const(y)):
            raise Unsupported("signed arithmetic")
        bits = INT_TYPES[ty]
        lim = sx.const(1 << bits)
        if op in CMPS:
            return Bool(CMPS[op](x, y))
        if op == "Add":
            return Int(sx.mod2(sx.add(x, y), bits), ty)
        if op == "Sub":
            return Int(sx.ite(sx.ge(x, y), sx.sub(x, y), sx.sub(sx.add(x, lim), y)) if not (sx.ge(x, y) is sx.TRUE) else sx.sub(x, y), ty)
        if op == "Mul":
            return Int(sx.mod2(sx.mul(x, y), bits), ty)
        if op == "AddWithOverflow":
            s = sx.add(x, y)
            return Agg("tuple", [Int(sx.mod2(s, bits), ty), Bool(sx.ge(s, lim))])
        if op == "SubWithOverflow":
            under = sx.lt(x, y)
            val = sx.sub(x, y) if under is sx.FALSE else sx.ite(under, sx.sub(sx.add(x, lim), y), sx.sub(x, y))
            return Agg("tuple", [Int(val, ty), Bool(under)])
        if op == "MulWithOverflow":
            p = sx.mul(x, y)
            return Agg("tuple", [Int(sx.mod2(p, bits), ty), Bool(sx.ge(p, lim))])
        if op == "Div":
            return Int(sx.div(x, y), ty)
        if op == "Rem":
            return Int(sx.rem(x, y), ty)
        if op in ("Shr", "ShrUnchecked"):
            if not sx.is_const(y):
                raise Unsupported("symbolic shift")
            return Int(sx.div(x, sx.const(1 << sx.cval(y))), ty)
        if op in ("Shl", "ShlUnchecked"):
            if not sx.is_const(y):
                raise Unsupported("symbolic shift")
            return Int(sx.mod2(sx.mul(x, sx.const(1 << sx.cval(y))), bits), ty)
        if op in ("BitXor", "BitAnd", "BitOr"):
            return Int(sx.bitop({"BitXor": "xor", "BitAnd": "and", "BitOr": "or"}[op], x, y, bits), ty)
        raise Unsupported("binop " + op)

    # ---- terminators ---------------------------------------------------------------------------
    def _terminator(self, item, frame, pc, ln, outcomes):
        if ln == "return;":
            outcomes.append(Outcome(pc, "ret", frame.get("_0", Agg("tuple", []))))
            return None
        if ln == "unreachable;":
            outcomes.append(Outcome(pc, "panic", None, "MIR unreachable reached in %s" % item.name))
            return None
        if ln.startswith("resume"):
            return None
        m = re.match(r"^goto -> (bb\d+);$", ln)
        if m:
            return [(m.group(1), frame, pc)]
        m = re.match(r"^drop\(.*\) -> \[return: (bb\d+).*\];$", ln)
        if m:
            return [(m.group(1), frame, pc)]
        m = re.match(r"^switchInt\((.*)\) -> \[(.*)\];$", ln)
        if m:
            v = self._operand(item, frame, m.group(1))
            t = v.t
            arms = []
            for part in m.group(2).split(", "):
                k, _, tgt = part.partition(": ")
                arms.append((k.strip(), tgt.strip()))
            res, others = [], []
            for k, tgt in arms:
                if k == "otherwise":
                    c = sx.and_(*others) if others else sx.TRUE
                else:
                    kv = int(k)
                    if isinstance(v, Bool):
                        c = sx.not_(t) if kv == 0 else t
                        others.append(sx.not_(c))
                    else:
                        c = sx.eq(t, sx.const(kv))
                        others.append(sx.not_(c))
                if c is sx.FALSE:
                    continue
                npc = sx.and_(pc, c)
                if npc is sx.FALSE:
                    continue
                res.append((tgt, frame if not res else self._clone_frame(frame), npc))
                if c is sx.TRUE:
                    break
            return res or None
        m = re.match(r"^assert\((!?)(.*?), (\".*\")(?:, .*?)?\) -> \[success: (bb\d+), unwind.*\];$", ln)
        if m:
            v = self._operand(item, frame, m.group(2))
            ok = sx.not_(v.t) if m.group(1) else v.t
            bad = sx.and_(pc, sx.not_(ok))
            if bad is not sx.FALSE:
                outcomes.append(Outcome(bad, "panic", None, "%s: %s" % (item.name.split("::")[-1], m.group(3)[:90])))
            npc = sx.and_(pc, ok)
            if npc is sx.FALSE:
                return None
            return [(m.group(4), frame, npc)]
        # calls
        m = _split_call(ln)
        if m:
            dest, fn, argstr, targets = m
            args = [self._operand(item, frame, a) for a in split_top(argstr)]
            tm = re.search(r"return: (bb\d+)", targets)
            ret_bb = tm.group(1) if tm else None
            results = self._call(item, fn.strip(), args, pc)
            nxt = []
            for cond, kind, val, msg in results:
                npc = sx.and_(pc, cond)
                if npc is sx.FALSE:
                    continue
                if kind == "ret":
                    if ret_bb is None:
                        continue
                    f = frame if not nxt else self._clone_frame(frame)
                    self._write(item, f, parse_place(dest), val)
                    nxt.append((ret_bb, f, npc))
                else:
                    outcomes.append(Outcome(npc, kind, None, msg))
            return nxt or None
        raise Unsupported("terminator: " + ln)

    def _clone_frame(self, frame):
        """Fork: copy the local store; references that point into the old store are re-pointed."""
        new = {}
        for k, v in frame.items():
            new[k] = self._reclone(v, frame, new)
        return new

    def _reclone(self, v, old, new):
        if isinstance(v, Ref) and v.store is old:
            return Ref(new, v.key, v.proj)
        if isinstance(v, Agg):
            return Agg(v.kind, [self._reclone(f, old, new) for f in v.fields], v.names, v.tyname)
        if isinstance(v, Enum):
            return Enum(v.variant, [self._reclone(f, old, new) for f in v.fields], v.tyname)
        if isinstance(v, RangeIter):
            return RangeIter(v.cur, v.end, v.inclusive, v.ty, v.done)
        if isinstance(v, SliceIter):
            return SliceIter(v.arr, v.lo, v.hi, v.rev)
        if isinstance(v, VecVal):
            return VecVal([self._reclone(f, old, new) for f in v.items])
        return v

    # ---- calls -----------------------------------------------------------------------------------
    def _call(self, item, fn, args, pc):
        """Returns list of (cond, kind, value, msg) relative to the caller's path."""
        key = re.sub(r"::<[^()]*>", "", fn)
        # diverging
        if re.search(r"(^|::)(panic|panic_fmt|panic_display|panic_explicit|unreachable_display|begin_panic)$", key) \
                or key.startswith("core::panicking::") or key.startswith("std::rt::"):
            msg = " ".join(repr(a) for a in args if isinstance(a, Opaque))[:120]
            return [(sx.TRUE, "panic", None, "%s: %s" % (item.name.split("::")[-1], msg or key))]
        if key in self.contracts:
            self.models_used.add("contract:" + key)
            return self.contracts[key](self, args)
        for pat, f in list(self.extra_models.items()) + list(MODELS.items()):
            if re.search(pat, fn):
                self.models_used.add(f.__name__)
                return f(self, args, fn)
        # closure call
        m = re.match(r"^<(\{closure@[^}]*\}) as Fn(?:Mut|Once)?<.*>>::call(?:_mut|_once)?$", fn)
        if m:
            target = self.mir.items[self.mir.closures[m.group(1)]]
            env, tup = args
            cargs = [env] + list(tup.fields)
            if self.closure_contract is not None:
                self.models_used.add("contract:closure %s" % target.name.split("::")[-2])
                return self.closure_contract(self, target, cargs)
            return self._summarise(target, cargs)
        try:
            target = self.mir.find(key)
        except KeyError:
            # `Type::method`: inherent impl items are printed as `module::<impl at file:span>::method`
            meth = key.split("::")[-1]
            cands = [it for n, it in self.mir.items.items() if it.kind == "fn" and re.search(r"<impl at [^>]*>::%s$" % re.escape(meth), n)
                     and len(it.args) == len(args)]
            if len(cands) > 1 and "::" in key:
                tyname = key.split("::")[-2]

                def score(it):
                    first = it.args[0][1] if it.args else ""
                    if re.search(r"^&(mut )?([\w:]*::)?%s\b" % re.escape(tyname), first):
                        return 3          # method with self: &Type
                    if re.search(r"(^|::)%s$" % re.escape(tyname), (it.ret_type or "").strip()):
                        return 2          # constructor returning Type
                    if re.search(r"\b%s\b" % re.escape(tyname), first):
                        return 1
                    return 0
                best = max(score(it) for it in cands)
                if best > 0:
                    cands = [it for it in cands if score(it) == best]
            if len(cands) != 1:
                raise Unsupported("call to %s (no MIR, no model; %d impl candidates)" % (fn, len(cands)))
            target = cands[0]
        return self._summarise(target, args)

    def _summarise(self, target, args):
        outs = self._run_item(target, args)
        rets = [o for o in outs if o.kind == "ret"]
        res = [(o.cond, o.kind, None, o.msg) for o in outs if o.kind != "ret"]
        if rets:
            merged = rets[0].value
            mergeable = True
            for o in rets[1:]:
                if not self._same_shape(merged, o.value):
                    mergeable = False
                    break
            if mergeable:
                val = rets[-1].value
                for o in reversed(rets[:-1]):
                    val = self._ite(o.cond, o.value, val)
                res.append((sx.or_(*[o.cond for o in rets]), "ret", val, ""))
            else:
                res.extend((o.cond, "ret", o.value, "") for o in rets)
        return res

    def _same_shape(self, a, b):
        if isinstance(a, Int) and isinstance(b, Int):
            return a.ty == b.ty
        if isinstance(a, Bool) and isinstance(b, Bool):
            return True
        if isinstance(a, Agg) and isinstance(b, Agg):
            return len(a.fields) == len(b.fields) and all(self._same_shape(x, y) for x, y in zip(a.fields, b.fields))
        if isinstance(a, Enum) and isinstance(b, Enum):
            return a.variant == b.variant and all(self._same_shape(x, y) for x, y in zip(a.fields, b.fields))
        return False

    def _ite(self, c, a, b):
        if isinstance(a, Int):
            return Int(sx.ite(c, a.t, b.t), a.ty)
        if isinstance(a, Bool):
            return Bool(sx.ite(c, a.t, b.t))
        if isinstance(a, Agg):
            return Agg(a.kind, [self._ite(c, x, y) for x, y in zip(a.fields, b.fields)], a.names, a.tyname)
        if isinstance(a, Enum):
            return Enum(a.variant, [self._ite(c, x, y) for x, y in zip(a.fields, b.fields)], a.tyname)
        raise Unsupported("ite of %r" % (a,))


def _split_call(ln):
    """`dest = FN(ARGS) -> TARGETS;` -> (dest, FN, ARGS, TARGETS); FN may itself contain parentheses."""
    if " = " not in ln or ") -> " not in ln or not ln.endswith(";"):
        return None
    dest, _, rest = ln.partition(" = ")
    head, _, targets = rest.rpartition(") -> ")
    # head = FN(ARGS  : find the '(' matching the final ')'
    depth, i, instr = 0, len(head) - 1, False
    while i >= 0:
        c = head[i]
        if c == '"' and (i == 0 or head[i - 1] != "\\"):
            instr = not instr
        elif not instr:
            if c == ")":
                depth += 1
            elif c == "(":
                if depth == 0:
                    return dest, head[:i], head[i + 1:], targets[:-1]
                depth -= 1
        i -= 1
    return None


CMPS = {"Eq": sx.eq, "Ne": sx.ne, "Lt": sx.lt, "Le": sx.le, "Gt": sx.gt, "Ge": sx.ge}
BINOPS = {"Add", "Sub", "Mul", "Div", "Rem", "BitXor", "BitAnd", "BitOr", "Shl", "Shr", "ShlUnchecked",
          "ShrUnchecked", "AddWithOverflow", "SubWithOverflow", "MulWithOverflow",
          "Eq", "Ne", "Lt", "Le", "Gt", "Ge"}


# ------------------------------------------------------------------------------------------------
# Hand models of library functions that have no MIR in the dump (each use is recorded)

def _deref(ex, v):
    if isinstance(v, Ref):
        x = v.store[v.key]
        for q in v.proj:
            x = ex._project(None, None, x, q)
        return x
    return v


def model_is_multiple_of(ex, args, fn):
    a, b = args
    # u64::is_multiple_of: rhs == 0 -> self == 0, else self % rhs == 0
    t = sx.ite(sx.eq(b.t, sx.const(0)), sx.eq(a.t, sx.const(0)), sx.eq(sx.rem(a.t, b.t), sx.const(0)))
    return [(sx.TRUE, "ret", Bool(t), "")]


def model_div_ceil(ex, args, fn):
    a, b = args
    res = [(sx.eq(b.t, sx.const(0)), "panic", None, "div_ceil: attempt to divide by zero")]
    res.append((sx.not_(sx.eq(b.t, sx.const(0))), "ret", Int(sx.ceil_div(a.t, b.t), a.ty), ""))
    return res


def model_into_u32(ex, args, fn):
    (a,) = args
    if isinstance(a, Int) and INT_TYPES[a.ty] <= 32 and a.ty.startswith("u"):
        return [(sx.TRUE, "ret", Int(a.t, "u32"), "")]
    raise Unsupported("Into<u32> for %r" % (a,))


def model_from_widen(ex, args, fn):
    (a,) = args
    m = re.search(r"<(u\d+|usize) as (?:From|Into)<(u\d+|usize)>>", fn)
    if m:
        # `<T as From<S>>::from(s)` widens S to T; `<S as Into<T>>::into`
        ty = m.group(1) if "From" in fn else m.group(2)
        if INT_TYPES[ty] >= INT_TYPES[a.ty]:
            return [(sx.TRUE, "ret", Int(a.t, ty), "")]
    raise Unsupported(fn)


def model_wrapping(ex, args, fn):
    a, b = args
    bits = INT_TYPES[a.ty]
    if fn.endswith("wrapping_add"):
        return [(sx.TRUE, "ret", Int(sx.mod2(sx.add(a.t, b.t), bits), a.ty), "")]
    if fn.endswith("wrapping_mul"):
        return [(sx.TRUE, "ret", Int(sx.mod2(sx.mul(a.t, b.t), bits), a.ty), "")]
    if fn.endswith("wrapping_sub"):
        return [(sx.TRUE, "ret", Int(sx.ite(sx.ge(a.t, b.t), sx.sub(a.t, b.t), sx.sub(sx.add(a.t, sx.const(1 << bits)), b.t)), a.ty), "")]
    raise Unsupported(fn)


def model_saturating(ex, args, fn):
    a, b = args
    bits = INT_TYPES[a.ty]
    if fn.endswith("saturating_sub"):
        return [(sx.TRUE, "ret", Int(sx.ite(sx.ge(a.t, b.t), sx.sub(a.t, b.t), sx.const(0)), a.ty), "")]
    if fn.endswith("saturating_add"):
        s_ = sx.add(a.t, b.t)
        return [(sx.TRUE, "ret", Int(sx.ite(sx.lt(s_, sx.const(1 << bits)), s_, sx.const((1 << bits) - 1)), a.ty), "")]
    raise Unsupported(fn)


def model_checked(ex, args, fn):
    """checked_add/sub/mul/div/rem on unsigned integers -> Option (forks into Some / None)."""
    a, b = args
    bits = INT_TYPES[a.ty]
    lim = sx.const(1 << bits)
    op = fn.rsplit("checked_", 1)[1]
    if op == "add":
        v = sx.add(a.t, b.t); ok = sx.lt(v, lim)
    elif op == "sub":
        v = sx.sub(a.t, b.t); ok = sx.ge(a.t, b.t)
    elif op == "mul":
        v = sx.mul(a.t, b.t); ok = sx.lt(v, lim)
    elif op == "div":
        v = sx.div(a.t, b.t); ok = sx.not_(sx.eq(b.t, sx.const(0)))
    elif op == "rem":
        v = sx.rem(a.t, b.t); ok = sx.not_(sx.eq(b.t, sx.const(0)))
    else:
        raise Unsupported(fn)
    res = []
    if ok is not sx.FALSE:
        res.append((ok, "ret", Enum("Some", [Int(v, a.ty)]), ""))
    if ok is not sx.TRUE:
        res.append((sx.not_(ok), "ret", Enum("None"), ""))
    return res


def model_overflowing(ex, args, fn):
    a, b = args
    bits = INT_TYPES[a.ty]
    lim = sx.const(1 << bits)
    op = fn.rsplit("overflowing_", 1)[1]
    if op == "add":
        v = sx.add(a.t, b.t)
        return [(sx.TRUE, "ret", Agg("tuple", [Int(sx.mod2(v, bits), a.ty), Bool(sx.ge(v, lim))]), "")]
    if op == "mul":
        v = sx.mul(a.t, b.t)
        return [(sx.TRUE, "ret", Agg("tuple", [Int(sx.mod2(v, bits), a.ty), Bool(sx.ge(v, lim))]), "")]
    if op == "sub":
        under = sx.lt(a.t, b.t)
        return [(sx.TRUE, "ret", Agg("tuple", [Int(sx.ite(under, sx.sub(sx.add(a.t, lim), b.t), sx.sub(a.t, b.t)), a.ty), Bool(under)]), "")]
    raise Unsupported(fn)


def model_abs_diff(ex, args, fn):
    a, b = args
    return [(sx.TRUE, "ret", Int(sx.ite(sx.ge(a.t, b.t), sx.sub(a.t, b.t), sx.sub(b.t, a.t)), a.ty), "")]


def model_vec_with_capacity(ex, args, fn):
    return [(sx.TRUE, "ret", VecVal([]), "")]


def model_min(ex, args, fn):
    a, b = args
    return [(sx.TRUE, "ret", Int(sx.ite(sx.le(a.t, b.t), a.t, b.t), a.ty), "")]


def model_max(ex, args, fn):
    a, b = args
    return [(sx.TRUE, "ret", Int(sx.ite(sx.ge(a.t, b.t), a.t, b.t), a.ty), "")]


def model_range_inclusive_new(ex, args, fn):
    a, b = args
    return [(sx.TRUE, "ret", RangeIter(a.t, b.t, True, a.ty), "")]


def model_into_iter(ex, args, fn):
    (a,) = args
    if isinstance(a, Agg) and a.tyname == "Range":
        return [(sx.TRUE, "ret", RangeIter(a.fields[0].t, a.fields[1].t, False, a.fields[0].ty), "")]
    if isinstance(a, (RangeIter, SliceIter)):
        return [(sx.TRUE, "ret", a, "")]
    raise Unsupported("into_iter of %r" % (a,))


def model_range_next(ex, args, fn):
    (r,) = args
    it = r.store[r.key] if isinstance(r, Ref) else r
    if not isinstance(it, RangeIter):
        raise Unsupported("next on %r" % (it,))
    if it.done:
        return [(sx.TRUE, "ret", Enum("None"), "")]
    has = sx.le(it.cur, it.end) if it.inclusive else sx.lt(it.cur, it.end)
    cur = it.cur
    some = Enum("Some", [Int(cur, it.ty)])
    # the iterator object is shared by both outcomes; the Some-outcome advances it.  The executor
    # forks frames *after* the model returns, so we return closures of state via a marker value.
    res = []
    if has is not sx.FALSE:
        res.append((has, "ret", _AdvanceIter(r, RangeIter(sx.add(cur, sx.const(1)), it.end, it.inclusive, it.ty), some), ""))
    if has is not sx.TRUE:
        res.append((sx.not_(has), "ret", _AdvanceIter(r, RangeIter(cur, it.end, it.inclusive, it.ty, True), Enum("None")), ""))
    return res


class _AdvanceIter:
    """Return value that also updates the iterator cell it came from (applied per forked frame)."""

    def __init__(self, ref, newstate, value):
        self.ref, self.newstate, self.value = ref, newstate, value


def model_slice_iter(ex, args, fn):
    (a,) = args
    a = _deref(ex, a)
    n = len(a.values) if isinstance(a, ConstArray) else len(a.fields)
    return [(sx.TRUE, "ret", SliceIter(a, 0, n), "")]


def model_rev(ex, args, fn):
    (a,) = args
    return [(sx.TRUE, "ret", SliceIter(a.arr, a.lo, a.hi, not a.rev), "")]


def model_slice_iter_next(ex, args, fn):
    (r,) = args
    it = r.store[r.key] if isinstance(r, Ref) else r
    if not isinstance(it, SliceIter):
        raise Unsupported("next on %r" % (it,))
    if it.lo >= it.hi:
        return [(sx.TRUE, "ret", Enum("None"), "")]
    if it.rev:
        idx, new = it.hi - 1, SliceIter(it.arr, it.lo, it.hi - 1, True)
    else:
        idx, new = it.lo, SliceIter(it.arr, it.lo + 1, it.hi, False)
    el = it.arr.values[idx] if isinstance(it.arr, ConstArray) else it.arr.fields[idx]
    return [(sx.TRUE, "ret", _AdvanceIter(r, new, Enum("Some", [el])), "")]


def model_vec_new(ex, args, fn):
    return [(sx.TRUE, "ret", VecVal([]), "")]


def model_vec_push(ex, args, fn):
    r, item = args
    cur = r.store[r.key] if isinstance(r, Ref) else r
    if not isinstance(cur, VecVal):
        raise Unsupported("push on %r" % (cur,))
    return [(sx.TRUE, "ret", _AdvanceIter(r, VecVal(cur.items + [item]), Agg("tuple", [])), "")]


def model_from_elem(ex, args, fn):
    elem, n = args
    return [(sx.TRUE, "ret", Agg("from_elem", [elem, n], tyname="vec![elem; n]"), "")]


def model_slice_len(ex, args, fn):
    (a,) = args
    a = _deref(ex, a)
    if isinstance(a, SliceVal):
        return [(sx.TRUE, "ret", Int(a.length, "usize"), "")]
    raise Unsupported("len of %r" % (a,))


def model_binary_search(ex, args, fn):
    """<[T]>::binary_search on a constant, strictly increasing array of integers: Ok(i) when v == a[i], Err(insertion point) otherwise."""
    arr, key = args
    arr = _deref(ex, arr)
    key = _deref(ex, key)
    vals = arr.values if isinstance(arr, ConstArray) else arr.fields
    cs = []
    for x in vals:
        if not isinstance(x, Int) or not sx.is_const(x.t):
            raise Unsupported("binary_search over a non-constant array")
        cs.append(sx.cval(x.t))
    if any(cs[i] >= cs[i + 1] for i in range(len(cs) - 1)):
        raise Unsupported("binary_search over an array that is not strictly increasing (result unspecified)")
    res = []
    v = key.t
    for i, c in enumerate(cs):
        res.append((sx.eq(v, sx.const(c)), "ret", Enum("Ok", [Int(sx.const(i), "usize")]), ""))
        lo = sx.gt(v, sx.const(cs[i - 1])) if i else sx.TRUE
        res.append((sx.and_(lo, sx.lt(v, sx.const(c))), "ret", Enum("Err", [Int(sx.const(i), "usize")]), ""))
    res.append((sx.gt(v, sx.const(cs[-1])), "ret", Enum("Err", [Int(sx.const(len(cs)), "usize")]), ""))
    return [r for r in res if r[0] is not sx.FALSE]


def model_identity(ex, args, fn):
    return [(sx.TRUE, "ret", args[0], "")]


MODELS = {
    r"^<Vec<.*> as Clone>::clone$": model_identity,
    r"^core::slice::<impl \[u\d+\]>::binary_search$": model_binary_search,
    r"^Vec::<.*>::new$": model_vec_new,
    r"^Vec::<.*>::push$": model_vec_push,
    r"^std::vec::from_elem::<.*>$": model_from_elem,
    r"^core::slice::<impl \[u8\]>::len$": model_slice_len,
    r"core::num::<impl u\d+>::is_multiple_of$": model_is_multiple_of,
    r"core::num::<impl u\d+>::div_ceil$": model_div_ceil,
    r"core::num::<impl u\d+>::wrapping_(add|sub|mul)$": model_wrapping,
    r"^<T[IJ] as Into<u32>>::into$": model_into_u32,
    r"^<u\d+ as (From|Into)<u\d+>>::(from|into)$": model_from_widen,
    r"^<usize as (From|Into)<u\d+>>::(from|into)$": model_from_widen,
    r"^(std|core)::cmp::min::<u\w+>$": model_min,
    r"^(std|core)::cmp::max::<u\w+>$": model_max,
    r"^<u\w+ as Ord>::min$|^(std|core)::cmp::Ord::min$": model_min,
    r"^<u\w+ as Ord>::max$|^(std|core)::cmp::Ord::max$": model_max,
    r"core::num::<impl u\w+>::saturating_(add|sub)$": model_saturating,
    r"core::num::<impl u\w+>::abs_diff$": model_abs_diff,
    r"core::num::<impl u\w+>::checked_(add|sub|mul|div|rem)$": model_checked,
    r"core::num::<impl u\w+>::overflowing_(add|sub|mul)$": model_overflowing,
    r"core::num::<impl u\w+>::div_euclid$": lambda ex, a, fn: [(sx.eq(a[1].t, sx.const(0)), "panic", None, "division by zero"), (sx.not_(sx.eq(a[1].t, sx.const(0))), "ret", Int(sx.div(a[0].t, a[1].t), a[0].ty), "")],
    r"core::num::<impl u\w+>::rem_euclid$": lambda ex, a, fn: [(sx.eq(a[1].t, sx.const(0)), "panic", None, "division by zero"), (sx.not_(sx.eq(a[1].t, sx.const(0))), "ret", Int(sx.rem(a[0].t, a[1].t), a[0].ty), "")],
    r"core::num::<impl u\w+>::next_multiple_of$": lambda ex, a, fn: [(sx.eq(a[1].t, sx.const(0)), "panic", None, "division by zero"), (sx.not_(sx.eq(a[1].t, sx.const(0))), "ret", Int(sx.mul(sx.ceil_div(a[0].t, a[1].t), a[1].t), a[0].ty), "")],
    r"^Vec::<.*>::with_capacity$": model_vec_with_capacity,
    r"RangeInclusive::<u\d+>::new$": model_range_inclusive_new,
    r"^<std::ops::Range(Inclusive)?<\w+> as IntoIterator>::into_iter$": model_into_iter,
    r"^<std::ops::Range(Inclusive)?<\w+> as Iterator>::next$": model_range_next,
    r"^core::slice::<impl \[.*\]>::iter$": model_slice_iter,
    r"^<std::slice::Iter<.*> as Iterator>::rev$": model_rev,
    r"^<Rev<std::slice::Iter<.*>> as IntoIterator>::into_iter$": model_into_iter,
    r"^<std::slice::Iter<.*> as IntoIterator>::into_iter$": model_into_iter,
    r"^<Rev<std::slice::Iter<.*>> as Iterator>::next$": model_slice_iter_next,
    r"^<std::slice::Iter<.*> as Iterator>::next$": model_slice_iter_next,
}


# the executor applies _AdvanceIter when writing call results
_orig_write = Exec._write


def _write_with_iter(self, item, frame, place, val):
    if isinstance(val, _AdvanceIter):
        r = val.ref
        # the reference was created in (a possibly cloned copy of) this frame: re-resolve by key
        if isinstance(r, Ref):
            store = frame if r.key in frame and not r.proj else r.store
            store[r.key] = val.newstate
        val = val.value
    return _orig_write(self, item, frame, place, val)


Exec._write = _write_with_iter
