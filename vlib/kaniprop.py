"""Turn Kani harness results into obligations; replay counterexamples natively before reporting."""
import os
import re
import shutil

from .common import run, offline_env

UB_CLASS = re.compile(r"dereference failure|pointer NULL|pointer invalid|pointer outside object bounds|invalid pointer|"
                      r"misaligned|deallocated dynamic object|dead object|Undefined Behavior|"
                      r"offset result and original pointer|memcpy|memmove|memset", re.I)


def concrete_playback(ov, harness, timeout_s, mem_gb, stubbing):
    """Re-run one failing harness with concrete playback; return (test_name, test_text) or None."""
    cmd = ["cargo", "kani", "-Z", "unstable-options", "-Z", "concrete-playback",
           "--concrete-playback=inplace", "--harness-timeout", "%ds" % timeout_s, "--harness", harness]
    if stubbing:
        cmd += ["-Z", "stubbing"]
    if not ov.std:
        cmd += ["--no-default-features"]
    rc, out, secs = run(cmd, cwd=ov.dir, env=offline_env(), timeout=timeout_s + 600, mem_gb=mem_gb)
    names = re.findall(r"fn (kani_concrete_playback_%s_\w+)" % re.escape(harness), out)
    # inplace mode edits the source file; find the generated tests there
    tests = []
    for root, _, files in os.walk(os.path.join(ov.dir, "src")):
        for fn in files:
            text = open(os.path.join(root, fn)).read()
            for m in re.finditer(r"(#\[test\]\s*fn (kani_concrete_playback_%s_\d+)\(\s*\)\s*\{.*?\n\s*\})"
                                 % re.escape(harness), text, re.S):
                tests.append((m.group(2), m.group(1)))
    if not tests:
        return None, out[-3000:]
    return tests, out[-3000:]


def native_playback(ov, test_name, release=False, timeout_s=600):
    """Run the generated unit test natively (real source, real rustc). Returns (failed?, output)."""
    cmd = ["cargo", "kani", "playback", "-Z", "concrete-playback"]
    if not ov.std:
        cmd += ["--no-default-features"]
    if release:
        cmd += ["--release"]
    cmd += ["--", test_name, "--exact"] if False else ["--", test_name]
    rc, out, secs = run(cmd, cwd=ov.dir, env=offline_env(), timeout=timeout_s)
    ran = re.search(r"running (\d+) test", out)
    if not ran or ran.group(1) == "0":
        return None, out[-3000:]
    failed = "test result: FAILED" in out or re.search(r"\.\.\. FAILED", out) is not None
    return failed, out[-3000:]


def run_harnesses(ctx, ov, harnesses, timeout_s=300, mem_gb=12, stubbing=False, cbmc_args=None,
                  replay_kind="kani", key_of=None, ub_is_violation=True, prefix="", jobs=None,
                  extra_args=None):
    """Run harnesses on an overlay; record one obligation per harness in ctx.report.

    success            -> held
    failed + reproduces natively (or UB-class pointer check) -> violation (replay file)
    failed + does not reproduce -> inconclusive (encoding problem, exit 2)
    timeout / error / missing   -> inconclusive
    """
    rep = ctx.report
    res = ov.run(harnesses, jobs=jobs or ctx.jobs, timeout_s=timeout_s, mem_gb=mem_gb, stubbing=stubbing,
                 cbmc_args=cbmc_args, extra_args=extra_args)
    for h in harnesses:
        r = res[h]
        name = "%s%s[%s]" % (prefix, h, ov.flavour())
        if r.status == "success":
            if r.uncovered:
                rep.inconclusive(name, "vacuity witness not satisfied: %s" % r.uncovered, r.time_s, "kani/cbmc")
            else:
                rep.held(name, "", r.time_s, "kani/cbmc")
            continue
        if r.status != "failed":
            rep.inconclusive(name, "%s: %s" % (r.status, r.raw[-400:].replace("\n", " | ")), r.time_s, "kani/cbmc")
            continue
        # failed: obtain concrete values and replay natively
        desc = "; ".join("%s @ %s" % (d, l) for d, l in r.failed_checks[:6])
        tests, out = concrete_playback(ov, h, timeout_s, mem_gb, stubbing)
        key = key_of(h, r) if key_of else h
        if not tests:
            ub = any(UB_CLASS.search(d) for d, _ in r.failed_checks)
            rep.inconclusive(name, "kani reports failed checks (%s) but produced no concrete playback test; "
                             "%s" % (desc, "UB-class" if ub else ""), r.time_s, "kani/cbmc")
            continue
        reproduced = []
        outputs = []
        for tname, ttext in tests:
            for release in (False, True):
                failed, tout = native_playback(ov, tname, release=release)
                outputs.append({"test": tname, "release": release, "failed_natively": failed,
                                "output_tail": (tout or "")[-800:]})
                if failed:
                    reproduced.append((tname, release))
        ub = any(UB_CLASS.search(d) for d, _ in r.failed_checks)
        replay_obj = {"kind": replay_kind, "engine": "kani", "harness": h, "flavour": ov.flavour(),
                      "failed_checks": r.failed_checks, "playback_tests": [t for _, t in tests],
                      "native_runs": outputs,
                      "how_to_replay": "append the harness module and the playback test to the named source "
                                       "file of a copy of /repo/src and run `cargo kani playback -Z concrete-playback`"}
        if reproduced:
            rep.violated(name, key, "kani counterexample reproduces natively: %s" % desc, replay_obj,
                         r.time_s, "kani/cbmc")
        elif ub and ub_is_violation:
            replay_obj["note"] = ("undefined-behaviour-class check (pointer/bounds); native execution does not "
                                  "trap on it, reported on Kani's memory model")
            rep.violated(name, key, "kani memory-safety check fails (UB class, not observable natively): %s" % desc,
                         replay_obj, r.time_s, "kani/cbmc")
        else:
            rep.inconclusive(name, "kani counterexample did not reproduce natively: %s" % desc, r.time_s,
                             "kani/cbmc")
    return res
