"""Engine E1: Kani/CBMC over a scratch overlay of /repo's current source (DESIGN.md §2).

The overlay is a copy of /repo/src with harness modules *appended* to the file owning the private
items they need.  Nothing in the copied text is edited.
"""
import glob
import os
import re
import shutil
import time

from .common import REPO, VERIF, run, offline_env

CARGO_TOML = """[package]
name = "raptorq"
version = "0.0.0-verif-overlay"
edition = "2024"

[lib]
crate-type = ["lib"]

[dependencies]

# the crate's own #[cfg(test)] modules need these when a counterexample is replayed natively
# (`cargo kani playback` builds the lib's test target); versions are pinned by /repo/Cargo.lock
[dev-dependencies]
primal = "0.3"
rand = "0.9"
threadpool = "1.7"

[features]
default = ["std"]
benchmarking = ["std"]
std = []

[workspace]

[lints.rust]
unexpected_cfgs = { level = "allow" }

[profile.dev]
debug-assertions = %s
overflow-checks = %s
"""


class HarnessResult:
    def __init__(self, name):
        self.name = name
        self.status = "missing"     # success | failed | timeout | error | missing
        self.failed_checks = []     # list of (description, location)
        self.time_s = 0.0
        self.raw = ""
        self.uncovered = ""         # non-empty when a kani::cover! witness was not satisfied

    def only_failed(self, pattern):
        return bool(self.failed_checks) and all(re.search(pattern, d) for d, _ in self.failed_checks)


class Overlay:
    def __init__(self, scratch_dir, name, std=True, debug_assertions=True, overflow_checks=True):
        self.dir = os.path.join(scratch_dir, name)
        self.std, self.da, self.oc = std, debug_assertions, overflow_checks
        self.appended = {}
        if os.path.exists(self.dir):
            shutil.rmtree(self.dir)
        os.makedirs(self.dir)
        shutil.copytree(os.path.join(REPO, "src"), os.path.join(self.dir, "src"))
        if os.path.exists(os.path.join(REPO, "Cargo.lock")):
            shutil.copy(os.path.join(REPO, "Cargo.lock"), os.path.join(self.dir, "Cargo.lock"))
        with open(os.path.join(self.dir, "Cargo.toml"), "w") as f:
            f.write(CARGO_TOML % ("true" if debug_assertions else "false",
                                  "true" if overflow_checks else "false"))

    def append(self, srcfile, text):
        """Append harness text (an in-module `#[cfg(kani)] mod …`) to src/<srcfile>."""
        path = os.path.join(self.dir, "src", srcfile)
        with open(path, "a") as f:
            f.write("\n" + text + "\n")
        self.appended.setdefault(srcfile, 0)
        self.appended[srcfile] += text.count("#[kani::proof]")

    def append_file(self, srcfile, harness_file, subst=None):
        text = open(os.path.join(VERIF, "harness", harness_file)).read()
        for k, v in (subst or {}).items():
            text = text.replace(k, v)
        self.append(srcfile, text)

    def flavour(self):
        return "%s/debug-assertions=%s/overflow-checks=%s" % (
            "std" if self.std else "no_std", self.da, self.oc)

    def run(self, harnesses, jobs=8, timeout_s=300, mem_gb=12, stubbing=False, cbmc_args=None,
            exact=True, extra_args=None):
        """Run the named harnesses (leaf names); returns {name: HarnessResult}."""
        results = {h: HarnessResult(h) for h in harnesses}
        if not harnesses:
            return results
        cmd = ["cargo", "kani", "-Z", "unstable-options", "--output-format", "terse",
               "-j", str(max(1, min(jobs, len(harnesses)))), "--harness-timeout", "%ds" % timeout_s]
        if stubbing:
            cmd += ["-Z", "stubbing"]
        if not self.std:
            cmd += ["--no-default-features"]
        if extra_args:
            cmd += extra_args
        for h in harnesses:
            cmd += ["--harness", h]
        if cbmc_args:
            cmd += ["--cbmc-args"] + cbmc_args
        # whole-invocation cap: every harness may use its timeout, in ceil(n/jobs) waves, + build
        waves = (len(harnesses) + jobs - 1) // max(jobs, 1)
        rc, out, secs = run(cmd, cwd=self.dir, env=offline_env(), timeout=timeout_s * waves + 600,
                            mem_gb=mem_gb)
        self.last_output = out
        self.last_rc = rc
        parse_terse(out, results)
        if "error: could not compile" in out or "error[E" in out:
            for r in results.values():
                if r.status == "missing":
                    r.status = "error"
                    r.raw = "overlay did not compile:\n" + "\n".join(
                        l for l in out.splitlines() if l.startswith("error"))[:2000]
        return results


def unwindset_for(ov, harness, rules, mem_gb=8):
    """Per-loop unwinding bounds: compile `harness` only, list CBMC's loops, and give every loop whose
    function matches `fn_regex` and whose source line matches `line_regex` the bound `n`.
    rules = [(fn_regex, line_regex, n)].  Returns (unwindset string or None, description list).
    Loops of the matched functions that match no rule make the result None (caller falls back to the
    global bound, which is sound but slow)."""
    cmd = ["cargo", "kani", "--only-codegen", "--harness", harness]
    if not ov.std:
        cmd.append("--no-default-features")
    rc, out, secs = run(cmd, cwd=ov.dir, env=offline_env(), timeout=900, mem_gb=mem_gb)
    outs = [f for f in glob.glob(os.path.join(ov.dir, "target", "kani", "*", "debug", "build", "raptorq", "*", "out", "*%s.out" % harness))]
    if not outs:
        outs = [f for f in glob.glob(os.path.join(ov.dir, "target", "**", "*%s.out" % harness), recursive=True)]
    if not outs:
        return None, ["no goto binary for %s: %s" % (harness, out[-300:])]
    rc, text, secs = run(["cbmc", "--show-loops", outs[0]], timeout=300)
    items, desc = [], []
    fn_res = [re.compile(r[0]) for r in rules]
    for m in re.finditer(r"Loop (\S+):\n\s+file (\S+) line (\d+)(?: column \d+)? function (.*)", text):
        name, fil, line, fn = m.group(1), m.group(2), int(m.group(3)), m.group(4)
        if not any(fr.search(fn) for fr in fn_res):
            continue
        try:
            src = open(os.path.join(ov.dir, fil)).read().splitlines()[line - 1].strip()
        except Exception:
            return None, ["cannot read %s:%d" % (fil, line)]
        for fr, lr, n in rules:
            if re.search(fr, fn) and re.search(lr, src):
                items.append("%s:%d" % (name, n))
                desc.append("%s:%d `%s` unwind %d" % (fil, line, src, n))
                break
        else:
            return None, ["loop at %s:%d `%s` matches no unwinding rule" % (fil, line, src)]
    if not items:
        return None, ["no loops matched"]
    return ",".join(items), desc


_CHECKING = re.compile(r"^Thread (\d+): Checking harness (\S+?)\.\.\.\s*$")
_THREAD = re.compile(r"^Thread (\d+): ?(.*)$")
_SEQ_CHECKING = re.compile(r"^Checking harness (\S+?)\.\.\.\s*$")


def parse_terse(out, results):
    """Parse `--output-format terse` output (sequential or -j N) into HarnessResults."""
    cur = {}          # thread -> harness leaf name
    active = None     # thread whose block we are inside
    blocks = {}       # harness -> list of lines
    for line in out.splitlines():
        m = _CHECKING.match(line)
        if m:
            leaf = m.group(2).split("::")[-1]
            cur[m.group(1)] = leaf
            blocks.setdefault(leaf, [])
            active = None
            continue
        m = _SEQ_CHECKING.match(line)
        if m:
            leaf = m.group(1).split("::")[-1]
            cur["seq"] = leaf
            blocks.setdefault(leaf, [])
            active = "seq"
            continue
        m = _THREAD.match(line)
        if m:
            active = m.group(1)
            if active in cur:
                blocks[cur[active]].append(m.group(2))
            continue
        if line.startswith("Manual Harness Summary") or line.startswith("Complete - "):
            active = None
            continue
        if active is not None and active in cur:
            blocks[cur[active]].append(line)
    for leaf, lines in blocks.items():
        if leaf not in results:
            continue
        r = results[leaf]
        text = "\n".join(lines)
        r.raw = text[-4000:]
        m = re.search(r"Verification Time: ([0-9.]+)s", text)
        if m:
            r.time_s = float(m.group(1))
        fc = re.findall(r"Failed Checks: (.*)\n\s*File: (.*)", text)
        r.failed_checks = [(d.strip(), loc.strip()) for d, loc in fc]
        m = re.search(r"\*\* (\d+) of (\d+) cover properties satisfied", text)
        if m and m.group(1) != m.group(2):
            r.uncovered = m.group(0)
        if "CBMC timed out" in text:
            r.status = "timeout"
        elif "VERIFICATION:- SUCCESSFUL" in text:
            r.status = "success"
        elif "VERIFICATION:- FAILED" in text and r.failed_checks and "CBMC failed" not in text:
            r.status = "failed"
        elif "VERIFICATION:- FAILED" in text and re.search(r"\*\* [1-9]\d* of \d+ failed", text):
            r.status = "failed"
        else:
            r.status = "error"
    return results
