#!/usr/bin/env python3
"""Translator validation for engine E2 (run by setup.sh): the MIR executor's symbolic outcomes,
evaluated on concrete inputs, must agree with the real functions run natively - on the repository's own
unit-test inputs and on seeded random inputs.  A mismatch means vlib/mir.py or one of its std models is
wrong; setup aborts."""
import os, random, sys
sys.path.insert(0, os.path.dirname(os.path.dirname(os.path.abspath(__file__))))
from vlib import sx, rfc
from vlib.common import Scratch
from vlib.mir import dump_mir, Mir, Exec, Int
from vlib.native import Native
from vlib.smtprop import find_fn


def outcome(outs, env, tables=None):
    hit = [o for o in outs if sx.evaluate(o.cond, env, tables)]
    assert len(hit) == 1, "paths are not a partition: %d paths true for %s" % (len(hit), env)
    o = hit[0]
    assert o.kind != "cut", "loop bound cut reached for %s: %s" % (env, o.msg)
    if o.kind != "ret":
        return ("panic",)

    def conc(v):
        if hasattr(v, "fields"):
            return tuple(conc(f) for f in v.fields)
        return sx.evaluate(v.t, env, tables)
    return ("ret", conc(o.value))


def main():
    sc = Scratch("validate_e2")
    native = Native(sc.path)
    rnd = random.Random(20260923)
    n = 0
    for oc in (True, False):
        sx.reset()
        mir = Mir(dump_mir(sc.path, overflow_checks=oc))
        # --- intermediate_tuple (concrete tables through select)
        ex = Exec(mir)
        X, W, J, P1 = sx.var("X", 32), sx.var("W", 32), sx.var("J", 32), sx.var("P1", 32)
        outs = ex.call("intermediate_tuple", [Int(X, "u32"), Int(W, "u32"), Int(J, "u32"), Int(P1, "u32")])
        cases = [(i, rfc.Params(100)) for i in range(0, 100, 7)]           # the repo's enc_constraint test uses K=100
        cases += [(rnd.randrange(0, (1 << 24) + 56403), rfc.Params(rnd.choice(rfc.TABLE2)[0])) for _ in range(50)]
        cases += [(3158229, rfc.Params(989)), (8192877, rfc.Params(2195)), ((1 << 24) - 1, rfc.Params(10))]
        for x, p in cases:
            env = {"X": x, "W": p.W, "J": p.J, "P1": p.P1}
            got = outcome(outs, env)
            nat = native.run(["tuple", x, p.W, p.J, p.P1], release=not oc)
            want = ("panic",) if nat.startswith("panic") else ("ret", tuple(int(v) for v in nat.split()[1:]))
            assert got == want, "intermediate_tuple%s: executor %s, native %s (overflow-checks=%s)" % ((x, p.W, p.J, p.P1), got, nat, oc)
            n += 1
        # --- generate_encoding_parameters (real kl closure, no contract)
        gen = find_fn(mir, r"::generate_encoding_parameters$", ["u64", "u16", "u64"])
        ex = Exec(mir, loop_bound=600)
        F, P, WS = sx.var("F", 64), sx.var("P", 16), sx.var("WS", 64)
        small = []
        for Pv in (1, 3, 64, 200):
            outs = ex.call(gen, [Int(F, "u64"), Int(sx.const(Pv), "u16"), Int(WS, "u64")])
            inputs = [(908, 11), (1000, 1 << 38), (10000, 4000), (4, 10 * 1024 * 1024), (1, 1), (0, 5)]      # incl. test_builder's 4 bytes
            inputs += [(rnd.randrange(1, 1 << rnd.randrange(1, 40)), rnd.randrange(1, 1 << rnd.randrange(1, 64))) for _ in range(12)]
            for f, ws in inputs:
                got = outcome(outs, {"F": f, "WS": ws})
                nat = native.run(["derive", f, Pv, ws], release=not oc)
                want = ("panic",) if nat.startswith("panic") else ("ret", tuple(int(v) for v in nat.split()[1:]))
                assert got == want, "generate_encoding_parameters(%d,%d,%d): executor %s, native %s (overflow-checks=%s)" % (f, Pv, ws, got, nat, oc)
                n += 1
    print("E2 translator validation: %d concrete evaluations of executor outcomes agree with the native functions" % n)
    sc.cleanup()


if __name__ == "__main__":
    main()
