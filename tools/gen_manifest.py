#!/usr/bin/env python3
"""Regenerates /verif/MANIFEST.json from the table below (keeps it schema-valid at all times)."""
import json, os, sys
HERE = os.path.dirname(os.path.dirname(os.path.abspath(__file__)))

CHECKS = {
 "C10": dict(level="model_checking", engine="E1 kani/cbmc",
   technique="Kani (CBMC bounded model checking) harnesses over the real octet.rs, all operand pairs symbolic; SAT verdict",
   text="Exhaustive-domain model checking: every one of the 2^16 operand pairs (2^24 with the fma accumulator) is covered by a CBMC verdict against a shift-and-xor reference multiplication mod 0x11D; tables, fma, division, alpha and the panics are all asserted in the same harnesses. Thorough adds associativity/distributivity/commutativity over all 2^24 triples (256 harnesses).",
   note="Trusted: the 8-step polynomial reference in the harness; Kani's model of unoptimised MIR; rustc's const evaluation of the derived tables.",
   design="§4 C10"),
 "C13": dict(level="model_checking", engine="E1 kani/cbmc",
   technique="Kani (CBMC) harnesses over the real base.rs serialisers/parsers with symbolic ids, fields and buffers; SAT verdict",
   text="Exhaustive for the fixed-size formats: all 2^32 payload ids and all 2^32 4-byte strings; all transmission-information field values with F<2^40 and all 12-byte buffers (byte-by-byte layout, reserved byte, both round-trip directions). Packets: each payload length 0..8 with symbolic id/contents for serialise+round-trip, symbolic length 0..8 for parse+re-serialise; short buffers panic.",
   note="Trusted: Kani's model of Vec/alloc; payloads longer than 8 bytes (thorough: also 16 and 33) are outside the claim.",
   design="§4 C13"),
 "C19": dict(level="model_checking", engine="E2 MIR->SMT (z3 5.1 + cvc5)",
   technique="symbolic execution of rustc's MIR of ObjectTransmissionInformation::new (+int_div_ceil) into integer SMT with the division lemma; z3/cvc5 verdict over the whole input types; models replayed natively",
   text="Exhaustive domain: F:u64, T:u16, Z:u8, N:u16, Al:u8 all symbolic over their whole types (T,Z,Al>0). Two unsat queries per overflow-check setting decide 'valid => accepted and reports the given values' and 'accepted => valid' against an oracle in unbounded integers in multiplication form; sat witnesses guard against vacuity. Counterexamples are replayed against the real crate in dev and release builds.",
   note="Trusted: the MIR executor (vlib/mir.py) and its model of u64::is_multiple_of / u64::div_ceil; the oracle formula; solvers z3 5.1 and cvc5 1.0 (cross-checked when both answer).",
   design="§4 C19"),
 "C15": dict(level="model_checking", engine="E2 MIR->SMT (z3 5.1 + cvc5) + E1 kani/cbmc",
   technique="MIR of the look-up functions and of intermediate_tuple/rand/deg symbolically executed into integer SMT (K resp. the internal symbol id symbolic over the whole reachable range, one query pair per Table-2 row, both overflow-check settings); Kani harness over enc_indices with symbolic row and arbitrary in-range tuple",
   text="Exhaustive domain for the arithmetic: for all 477 rows and every internal symbol id X < 2^24+K' the solver shows no panic path of Tuple[] is reachable (overflow checks on and off), the tuple lies in the stated ranges and equals an RFC transcription; the eight look-up functions return the row of the smallest K' >= K for symbolic K and refuse K > 56403; the constant tables of the current source equal the pinned RFC values and satisfy the primality/size facts (concrete, all rows); Kani shows Enc[] index generation terminates, never panics and yields exactly d+d1 indices < L for every row and every in-range tuple, and (independently of the MIR executor) the tuple ranges for symbolic row and id.",
   note="Trusted: vlib/mir.py executor and its std models; V0..V3 contents/xor are uninterpreted in the SMT queries (contents compared concretely with /verif/oracle/rfc6330_tables.json, which stands in for the printed RFC); Kani's unoptimised-MIR model; per-loop unwinding bounds are enforced by unwinding assertions.",
   design="§4 C15"),
 "C14": dict(level="model_checking", engine="E2 MIR->SMT (z3 5.1 + cvc5)",
   technique="modular symbolic execution of the MIR of generate_encoding_parameters, its kl closure and int_div_ceil into integer SMT (division lemma); kl is proved equal to KL(n) over the real Table 2 for every argument the caller can pass and is then used as a contract; unsat verdicts from z3/cvc5, models replayed natively",
   text="O1 int_div_ceil = ceil when the quotient fits u32 and panics only on a zero divisor (all u64 pairs); O2 the real kl closure equals max{K'<=WS/(Al*ceil(T/(Al*n)))} and never panics for every (T,Al,n,WS) its caller can pass when N_max is feasible (WS over all of u64, all 477 rows unrolled); O2b monotonicity/bounds lemmas of KL; O3 with kl under that contract the returned (T,Z,N,Al) equal the RFC 4.3 derivation written in unbounded integers and nothing panics whenever a valid configuration exists; O4 a larger budget never yields more blocks. O3/O4: F and WS symbolic over u64, every packet size P' <= 319 (quick) / 1087 (thorough) enumerated, both overflow-check settings.",
   note="Trusted: vlib/mir.py and its std models; the paper step composing O2 with O3/O4 (KLfun uninterpreted + O2b lemmas); Lemma A (valid => F <= 255*56403*T, its own query) justifies executing O3/O4 with F ranged; P' above the bound and the round-trip clause are outside (C01/C05).",
   design="§4 C14"),
 "C06": dict(level="translation_validation", engine="E3 cvc5 finite-field SMT (+z3) over programs emitted by the real solver",
   technique="translation validation: each operation program the real PI solver emits (dense/sparse back-end, direct solve and plan, debug and release) is recorded through the cfg-guarded hook and proved, by a cvc5 finite-field (F_2) query with all source data symbolic, to produce symbols satisfying every LDPC, HDPC and LT relation of an independent RFC 6330 transcription",
   text="For every Table-2 row up to the bound (quick K'<=55: 13 rows / 26 distinct programs; thorough K'<=257: 46 rows) the emitted program is validated for ALL data (unsat of 'some relation violated'), on both matrix back-ends, for direct solve and plan replay and for debug-assertion and release builds; the real code's own result on tagged data is additionally checked concretely, as is a padded block per row; rows above the bound are only built (release). A non-proved certificate goes to z3 for concrete data, replayed through SourceBlockEncoder::new.",
   note="Trusted: vlib/rfc.py (RFC transcription) over pinned tables; the F_2 semantics of the four op kinds (tied to the kernels by C09-C11 and cross-checked by replaying each program in the checker against the real result); cvc5 1.4's FF solver; programs come from concrete runs (the solver's control flow is data-independent).",
   design="§2 E3, §4 C06"),
 "C04": dict(level="translation_validation", engine="E3 + E1 kani + E2",
   technique="translation validation of the encoder's operation programs by finite-field SMT for all data; Kani harness showing enc_into xors exactly the symbols Enc[] selects for every in-range tuple (one-hot slab); MIR->SMT equality of intermediate_tuple with Tuple[K',X] for all rows and ids; concrete packet differential against the transcription",
   text="(1) programs behind SourceBlockEncoder::new / with_encoding_plan validated for all data for every K' up to the bound => intermediate symbols are the RFC's unique C; (2) Kani: for the K'=10 geometry and every in-range tuple the result of enc_into on a one-hot slab equals the GF(2) coefficient vector of an independent Enc[] transcription (identity and permuted slab); (3) E2: tuple == RFC Tuple for rows K'<=600 (quick) / all 477 (thorough), X symbolic; (4) concrete: real source/repair packets (ESIs K.., 2^24-1, seeded) equal the transcription's byte for byte, also for multi-block objects with neighbouring block sizes of different K', and for every row up to K'=1200 the real intermediate symbols satisfy the RFC system and the first repair packets are Enc of them.",
   note="Trusted: as C06 plus the paper composition of (1)-(3); ESI->ISI offset and source packet identity are only observed concretely in (4); T>1 rests on C09/C11.",
   design="§4 C04"),
 "C01": dict(level="translation_validation", engine="E3 cvc5 finite-field SMT over decode programs emitted by the real decoder",
   technique="translation validation of the decoder: for every scenario of a generated family the real SourceBlockDecoder is run (hooked); the operation program behind each answer is proved by a cvc5 finite-field query (all 8L bits of the intermediate symbols symbolic) to be a left inverse of the RFC constraint matrix restricted to the observed slab rows; answers are compared byte for byte with the original",
   text="Every program behind an answer (about 230 distinct programs in quick, incl. the binary-only fast path) is validated for ALL data against the RFC transcription, with the slab layout (constraint rows, sources in ESI order, padding, repair rows as ESI+K'-K) observed from a run on tagged payloads; every answer of every run equals the original bytes with the exact length, 'not yet' never persists once all source symbols arrived; object-level round trips with Z,N,Al and padding are observed concretely.",
   note="Packet sets/orders are enumerated and seeded (VERIF_SEED), not symbolic; post-solve data movement is concrete; trusted: vlib/rfc.py, pinned tables, cvc5-FF, F_2 semantics of the ops (C09-C11).",
   design="§4 C01"),
 "C02": dict(level="translation_validation", engine="E3 cvc5 finite-field SMT + checked GF(256) kernel witnesses",
   technique="each verdict of the real decoder is certified in the direction it claims: 'answered' by the finite-field unsat query M*A_rfc[rows]=I (full column rank), 'not yet' with >= K symbols by a GF(256) kernel vector re-checked by evaluation; scenarios include random K-subsets, deliberately rank-deficient sets and batches that defeat the binary-only fast path",
   text="For ~190 received sets per run (K=10,26 in quick) the decoder's verdict after every delivery is certified: never an answer for a rank-deficient set (certificate would be sat), never 'not yet' for a full-rank set (kernel search finds none => violation), including the fall-back from the no-HDPC fast path and sets with fewer than K symbols.",
   note="Sets are a generated family; only each set's rank question is settled exactly. Trusted: vlib/rfc.py matrix construction, cvc5-FF, the checker's own evaluation of kernel witnesses.",
   design="§4 C02"),
 "C09": dict(level="model_checking", engine="E1 kani/cbmc",
   technique="Kani (CBMC) harnesses over the real SymbolSlab, perform_op and enc_into: arbitrary slab contents, arbitrary permutation as reorder map, symbolic indices/op kind, frame condition and byte-wise semantics asserted per byte; enc_into checked on a one-hot slab against an Enc[] transcription",
   text="The units that make the code linear and column-wise are decided: (i) get/get_mut/get_pair_mut address exactly data[phys*T..phys*T+T], pairs are disjoint and in bounds, equal or out-of-range indices panic; (ii) perform_op changes only the destination symbol and applies xor / c* / xor-c* byte by byte (symbolic op kind, indices, data; T in {1,2,3,9}); Reorder is a pure relabelling; (iv) enc_into and enc_indices form the GF(2) combination Enc[] prescribes for every in-range tuple independently of the data. (iii) is C11; next to it, concretely, 20 dispatched kernel operations through a slab at every T in 1..72 (every byte alignment and stride residue) match the field definition. The lift from T=1 certificates (C04/C06/C01) to every T is the paper composition of these.",
   note="No direct whole-encoder comparison of T-byte packets with T one-byte encodings (plan replay is out of CBMC's reach); slab shapes are a small listed set; multiplying ops with a fixed scalar for T>1 (table cost).",
   design="§4 C09"),
 "C11": dict(level="model_checking", engine="E1 kani/cbmc with intrinsic stubs",
   technique="one Kani harness per kernel and buffer length over the real octets.rs kernels (AVX-512, AVX2, SSSE3, portable; binary FMA), symbolic contents/scalars/bit vectors, exact heap allocations; pshufb/bextr/maskz-mov modelled by stubs validated against the host CPU; result compared with the polynomial definition of GF(256)",
   text="For each of the 14 x86-64 kernels and the 4 public entry points (no_std dispatch): every byte of the result equals the element-wise field operation for all contents; add and binary-FMA kernels for all 256 scalars at every listed length (0..65 boundary set and two-iteration lengths); table kernels (mul, fma) at the boundary lengths of their vector width with a fixed scalar plus 16-value scalar slices at 'one vector + tail' (thorough: 4 of the 16 slices, a second fixed scalar, a few more lengths).",
   note="Trusted: the stub models of _mm*_shuffle_epi8, _bextr2_u32, _mm512_maskz_mov_epi8; Kani has no alignment faults (unaligned loads are used by the kernels); run-time dispatch is not executed; NEON kernels are not compiled here; the lengths x scalars product of table kernels is covered per dimension, not jointly.",
   design="§4 C11"),
 "C12": dict(level="model_checking", engine="E1 kani/cbmc",
   technique="the C11 kernel harnesses on exact-size heap operands (CBMC pointer checks flag any byte outside a slice), plus harnesses for SymbolSlab::get_pair_mut (raw-pointer pair: address, bounds, disjointness; refusal for an arbitrary, non-injective or out-of-range reorder map), util::get_both_ranges/get_both_indices and the unchecked table look-ups of Octet::mul/fma",
   text="Within the listed lengths/shapes no kernel, tail loop, unchecked look-up or paired borrow reads or writes outside its operands or hands out overlapping mutable access: CBMC's object-bounds/dead-object/unaligned-access checks pass for symbolic contents, indices and permutations, in both debug-assertion settings for the util/octet units.",
   note="Kani does not check aliasing models; whole workloads and lengths above the bounds are outside; a failing pointer check cannot be confirmed natively and is reported on Kani's memory model.",
   design="§4 C12"),
 "C05": dict(level="model_checking", engine="E2 MIR->SMT + E1 kani/cbmc",
   technique="MIR of partition, calculate_block_offsets, Decoder::new and SourceBlockDecoder::new symbolically executed into integer SMT (F, T over their whole ranges, Z up to the loop bound); Kani harnesses for create_symbols and unpack_sub_blocks on concrete shapes with symbolic data against an independent RFC 4.4.1.2 index formula; concrete object-level layout/padding/numbering comparison",
   text="partition(I,J) equals (ceil, floor, JL, JS) of the RFC for all u32 I and J>=1 and never panics; calculate_block_offsets yields exactly Z contiguous ranges, ZL of KL*T then ZS of KS*T bytes, only the last passing F and by less than T, for every valid (F,T) and Z<=5 (thorough 8); Decoder::new creates block decoders 0..Z-1 of those sizes and SourceBlockDecoder::new holds K=len/T symbols; create_symbols places sub-symbol (j,m) per the RFC formula and unpack_sub_blocks inverts it for 6 (13) shapes with symbolic data; whole objects (8 configurations) match an independent layout computation incl. zero padding, SBN/ESI numbering and T-byte payloads.",
   note="Encoder::new/Decoder::decode end to end are only observed concretely; Vec::new/push/from_elem are hand models in the MIR executor; shapes for the Kani units are small (Vec<Vec<u8>> growth).",
   design="§4 C05"),
 "C18": dict(level="model_checking", engine="E2 MIR->SMT (z3 5.1 + cvc5)",
   technique="symbolic execution of the MIR of repair_packets, the source_packets closure, get_encoded_packets and with_encoding_plan with symbolic K, s, n, block number; ids, the ISI handed to Tuple[] and all arguments of the pure payload functions are compared between windows and single requests by SMT queries",
   text="For every K in 1..56403, every u32 start s and window length n<=3 with K+s+n<=2^24: packet i carries (sbn, K+s+i) and Enc of Tuple[K', K'+s+i] computed with K's parameters, ids strictly increase, nothing panics, the last id 2^24-1 is producible and ids >= 2^24 are refused; packet i of a window has exactly the arguments of the single request s+i (payload callees are pure: checked syntactically), so overlapping windows agree; source packet i is (sbn, i, source symbol i); the per-object list is, block by block, source packets then repair_packets(0,r); with_encoding_plan accepts a plan iff it was generated for the same symbol count. Both overflow-check settings. Concrete: windows vs singles near both ends of the ESI range (padded and unpadded blocks), no id >= 2^24 ever returned, two generated plans equal, block encoders inside multi-block Encoders equal standalone and explicitly planned ones.",
   note="K', W, J, P1 are uninterpreted functions of K here (C15 covers them); payload equality is inferred from argument equality; Vec/iterator operations are hand models; windows longer than 3 are outside the symbolic part.",
   design="§4 C18"),
 "C16": dict(level="model_checking", engine="E1 kani/cbmc",
   technique="Kani (CBMC) one-step harnesses over the real DenseBinaryMatrix: an arbitrary representable state (all word contents symbolic), one interface operation with symbolic admissible arguments, post-state compared cell by cell through a symbolic probe with the abstract operation on the pre-state",
   text="DENSE HALF ONLY. For shapes 3x66, 2x64 (+1 spare word) and 3x130: new/get/set/swap_rows/resize, and for 3x66 also swap_columns (with hint), add_assign_rows (start_col respected as 'undefined left of it'), count_ones and get_row_iter over arbitrary ranges, all equal the plain two-dimensional bit array semantics from ANY word contents; since every word pattern of the right length is a reachable-or-not-but-valid state and each operation maps abstract pre-state to abstract post-state, sequences of any length follow by induction.",
   note="The SPARSE representation (SparseBinaryMatrix, SparseBinaryVec, column index, dense tail) is NOT covered: no CBMC verdict for three sets and two operations in 25 min and no way to construct an arbitrary valid symbolic state of it within reach; get_sub_row_as_octets / query_non_zero_columns / get_ones_in_column (Vec-building queries) are not covered in quick; shapes are small.",
   design="§4 C16"),
 "C07": dict(level="translation_validation", engine="E3 + E1 + concrete flavour comparison",
   technique="translation validation of the programs emitted under every solver flavour (sparse threshold 0/250/inf, direct solve vs plan, debug-assertion vs release) against one uniquely solvable RFC specification by finite-field SMT; Kani harnesses proving every arithmetic kernel equal to the same element-wise field operation; byte comparison of std/no_std builds, fresh/cached/explicit plans and debug/release through the public API",
   text="Reduction to a common specification: each distinct encoder program for K' up to 55 (thorough 101 and 257) from 3 thresholds x {direct, plan} x {debug, release}, and decoder programs from scenarios at thresholds 0 and inf in both profiles, is certified for all data against the same RFC system, whose solution is unique - so the flavours agree; the decoder's verdict sequence is identical across 3 thresholds x 2 profiles; all 14 x86-64 kernels (one length each here, full claim in C11) equal the same polynomial-definition operation; std vs no_std builds, SourceBlockEncoder::new twice (second served by the plan cache), with_encoding_plan and Encoder::new, in debug and release, give byte-identical packets and decoded bytes for 11 block sizes.",
   note="The optimiser, the no_std solver and the cache are compared on concrete runs only; concurrency (C17) is not applicable; NEON not compiled; trusted base as C06/C11.",
   design="§4 C07"),
}

NOT_APPLICABLE = {
 "C03": "statement about a probability distribution over random (K+h)-subsets: needs weighted model counting over rank conditions; no bounded SMT/BMC encoding gives the frequency, and estimating it is sampling, which this technique family excludes (DESIGN §4 C03)",
 "C08": "quantifies over delivery histories of the stateful Decoder (Vec<Option<Symbol>>, HashSet/BTreeSet, Vec<EncodingPacket>): three harness shapes on the real decoder gave no CBMC verdict in 20-25 min even for K=2 and 3 deliveries; an inductive step needs an arbitrary valid symbolic state of the same containers (DESIGN §4 C08)",
 "C17": "concurrency over a process-wide OnceLock<Mutex<HashMap,VecDeque>>: Kani does not model threads, eviction needs >64 HashMap insertions; only a hand-written model of the critical sections could be explored, i.e. not the real code (DESIGN §4 C17)",
}
PENDING = {}

def main():
    props = [json.loads(l)["id"] for l in open(os.path.join(HERE, "properties.jsonl"))]
    checks = []
    for pid in props:
        if pid not in CHECKS:
            continue
        c = CHECKS[pid]
        checks.append({
            "property_id": pid,
            "quick_cmd": "./check %s --tier quick" % pid,
            "thorough_cmd": "./check %s --tier thorough" % pid,
            "evidence_file": "evidence/%s.json" % pid,
            "replay_cmd_template": "./check %s --replay {path}" % pid,
            "engine": c["engine"],
            "level_claimed": {"category": c["level"], "text": c["text"], "design_ref": c["design"]},
            "level_note": c["note"],
            "technique": c["technique"],
        })
    na = []
    for pid in props:
        if pid in CHECKS:
            continue
        if pid in NOT_APPLICABLE:
            na.append({"property_id": pid, "reason": NOT_APPLICABLE[pid]})
        else:
            na.append({"property_id": pid, "reason": PENDING.get(pid, "check not built yet (build in progress; planned engine in DESIGN.md §4)")})
    man = {
        "version": 1,
        "setup_cmd": "./setup.sh",
        "hooks": {
            "guard": "--cfg raptorq_verif (RUSTFLAGS)",
            "enable": "RUSTFLAGS='--cfg raptorq_verif' cargo build (done by the native helper build of the checks)",
            "baseline_off_cmd": "cd /repo && cargo test --workspace --no-fail-fast --offline",
            "source_commits": HOOK_COMMITS,
            "add_only": True,
        },
        "engines": [
            {"name": "E1", "path": "vlib/kani.py", "serves_properties": ["C05","C09","C10","C11","C12","C13","C15","C16","C18","C19"],
             "kind_free_text": "Kani 0.68 / CBMC 6.11 harnesses appended to a scratch copy of /repo/src (overlay), symbolic inputs, SAT verdict, concrete playback replay"},
            {"name": "E2", "path": "vlib/mir.py", "serves_properties": ["C05","C14","C15","C18","C19"],
             "kind_free_text": "MIR (rustc -Zunpretty=mir of the current tree) -> SMT-LIB (Int with division lemma / BV), z3 5.1 + cvc5"},
            {"name": "E3", "path": "vlib/cert.py", "serves_properties": ["C01","C02","C04","C06","C07"],
             "kind_free_text": "translation validation of the operation programs the real PI solver emits: finite-field (F_2) SMT in cvc5 1.4 for all data, z3 BV for counterexamples, against an independent RFC 6330 transcription"},
        ],
        "checks": checks,
        "not_applicable": na,
        "notes": "All checks: exit 0 held / 1 reproduced unlisted violation / 2 inconclusive. Known findings: known_findings.txt. See DESIGN.md.",
    }
    with open(os.path.join(HERE, "MANIFEST.json"), "w") as f:
        json.dump(man, f, indent=1)
    try:
        import jsonschema
        jsonschema.validate(man, json.load(open("/root/.vp/MANIFEST.schema.json")))
        print("MANIFEST.json valid; %d checks, %d not applicable/pending" % (len(checks), len(na)))
    except ImportError:
        print("written (jsonschema not available for validation)")

HOOK_COMMITS = ["77b6423", "21841ff"]
if __name__ == "__main__":
    main()
