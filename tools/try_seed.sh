#!/bin/sh
# usage: try_seed.sh <seed-dir-with-patch.diff> <CHECK-ID>...
# Applies the seeded change to /repo, runs the quick checks, reverts.  The evidence file of the clean tree is
# put back afterwards (committed evidence must describe runs on the unchanged tree); the evidence of the
# seeded run is kept next to the seed as evidence_<ID>.json.
d="$1"; shift
cd /repo || exit 2
git diff --quiet || { echo "/repo not clean"; exit 2; }
git apply "$d/patch.diff" || exit 2
for id in "$@"; do
  echo "=== $id against $(basename $d)"
  cp "/verif/evidence/$id.json" "/var/tmp/evidence_$id.clean.$$" 2>/dev/null
  (cd /verif && ./check "$id" --tier quick > "$d/check_$id.log" 2>&1; echo "exit=$?" >> "$d/check_$id.log")
  cp "/verif/evidence/$id.json" "$d/evidence_$id.json" 2>/dev/null
  [ -f "/var/tmp/evidence_$id.clean.$$" ] && mv "/var/tmp/evidence_$id.clean.$$" "/verif/evidence/$id.json"
  grep -E "^VIOLATION|^INCONCLUSIVE|^KNOWN|tier=quick|exit=" "$d/check_$id.log" | cut -c1-260 | head -8
done
git -C /repo checkout -- .
git -C /repo status --short
