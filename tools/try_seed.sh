#!/bin/sh
# usage: try_seed.sh <seed-dir-with-patch.diff> <CHECK-ID>...   (applies to /repo, runs quick checks, reverts)
d="$1"; shift
cd /repo || exit 2
git diff --quiet || { echo "/repo not clean"; exit 2; }
git apply "$d/patch.diff" || exit 2
for id in "$@"; do
  echo "=== $id against $(basename $d)"
  (cd /verif && ./check "$id" --tier quick > "$d/check_$id.log" 2>&1; echo "exit=$?" >> "$d/check_$id.log")
  grep -E "^VIOLATION|^INCONCLUSIVE|^KNOWN|tier=quick|exit=" "$d/check_$id.log" | cut -c1-260 | head -8
done
git -C /repo checkout -- .
git -C /repo status --short
