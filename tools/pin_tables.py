#!/usr/bin/env python3
"""One-off: transcribe the RFC 6330 constant tables from the pinned snapshot commit of /repo into
/verif/oracle/rfc6330_tables.json (DESIGN §6: no copy of the RFC exists in this sandbox; the pinned
values detect drift, they cannot detect an error already present in the pinned commit).
Cross-checks performed here: 477 rows, K' strictly increasing, S and W prime, P1 least prime >= P."""
import json, re, subprocess, sys
PIN = "0c30b9e"
def show(path):
    return subprocess.check_output(["git", "-C", "/repo", "show", "%s:%s" % (PIN, path)], text=True)
def isprime(n):
    if n < 2: return False
    i = 2
    while i * i <= n:
        if n % i == 0: return False
        i += 1
    return True
sc = show("src/systematic_constants.rs")
t2 = re.search(r"SYSTEMATIC_INDICES_AND_PARAMETERS: \[\(u32, u32, u32, u32, u32\); 477\] = \[(.*?)\];", sc, re.S).group(1)
rows = [list(map(int, m)) for m in re.findall(r"\((\d+), (\d+), (\d+), (\d+), (\d+)\)", t2)]
p1t = re.search(r"P1_TABLE: \[\(u32, u32\); 477\] = \[(.*?)\];", sc, re.S).group(1)
p1 = [list(map(int, m)) for m in re.findall(r"\((\d+), (\d+)\)", p1t)]
assert len(rows) == 477 and len(p1) == 477
for i, (k, j, s, h, w) in enumerate(rows):
    assert i == 0 or k > rows[i-1][0]
    assert isprime(s) and isprime(w), (k, s, w)
    L = k + s + h; P = L - w
    q = P
    while not isprime(q): q += 1
    assert p1[i] == [k, q], (k, p1[i], q)
    assert w - s >= 1 and P >= h >= 2 and L < 65536
rng = show("src/rng.rs")
V = []
for n in range(4):
    body = re.search(r"const V%d: \[u32; 256\] = \[(.*?)\];" % n, rng, re.S).group(1)
    vals = list(map(int, re.findall(r"\d+", body)))
    assert len(vals) == 256
    V.append(vals)
base = show("src/base.rs")
f = list(map(int, re.findall(r"\d+", re.search(r"let f: \[u32; 31\] = \[(.*?)\];", base, re.S).group(1))))
assert len(f) == 31 and f[0] == 0 and f[-1] == 1048576
json.dump({"source": "cberner/raptorq snapshot %s (src/systematic_constants.rs, src/rng.rs, src/base.rs)" % PIN,
           "table2": rows, "p1": [p[1] for p in p1], "V": V, "deg_f": f}, open("/verif/oracle/rfc6330_tables.json", "w"))
print("pinned", len(rows), "rows")
