#!/usr/bin/env python3
"""Confirm a seeded change in its scratch worktree: (1) existing suite passes with the change,
(2) the demonstration fails with the change, (3) passes without it.  usage: seed_confirm.py ID paste|example [file-to-paste-into filter]"""
import os, re, subprocess, sys, shutil, json
pid, kind = sys.argv[1], sys.argv[2]
wt, out = os.environ.get("SEED_WT", "/tmp/seeds/wt_%s" % pid), os.environ.get("SEED_OUT", "/tmp/seeds/out_%s" % pid)
env = dict(os.environ, CARGO_NET_OFFLINE="true", CARGO_TARGET_DIR=wt + "/target")
def sh(cmd, **kw):
    p = subprocess.run(cmd, shell=True, cwd=wt, env=env, capture_output=True, text=True, **kw)
    return p.returncode, (p.stdout + p.stderr)
res = {}
sh("git checkout -- . && git clean -fdq -e target")
rc, o = sh("git apply %s/patch.diff" % out)
assert rc == 0, o
rc, o = sh("cargo test --offline 2>&1 | tail -30")
m = re.findall(r"test result: (\w+)\. (\d+) passed; (\d+) failed", o)
res["suite_with_change"] = m
def demo(tag):
    if kind == "example":
        f = [x for x in os.listdir(out) if x.endswith(".rs")][0]
        os.makedirs(wt + "/examples", exist_ok=True)
        shutil.copy(os.path.join(out, f), wt + "/examples/" + f)
        rc, o = sh("cargo run --offline --example %s 2>&1 | tail -15" % f[:-3])
        # pipe hides rc: detect by output
        rc2, _ = sh("cargo run --offline --example %s >/dev/null 2>&1" % f[:-3])
        return rc2, o[-600:]
    else:
        target, filt = sys.argv[3], sys.argv[4]
        src = open(os.path.join(wt, target)).read()
        body = open(os.path.join(out, "demo_test.rs")).read()
        i = src.rstrip().rfind("}")
        open(os.path.join(wt, target), "w").write(src[:i] + "\n" + body + "\n}\n")
        rc, o = sh("cargo test --offline --lib %s 2>&1 | tail -25" % filt)
        failed = "FAILED" in o or "panicked" in o or "error" in o.lower() and "test result: ok" not in o
        sh("git checkout -- %s" % target)
        return (1 if failed else 0), o[-800:]
rc, o = demo("with")
res["demo_with_change_fails"] = rc != 0
res["demo_with_tail"] = o[-400:]
sh("git checkout -- . ")
rc, o = demo("without")
res["demo_without_change_passes"] = rc == 0
res["demo_without_tail"] = o[-300:]
sh("git checkout -- . && git clean -fdq -e target")
sh("git apply %s/patch.diff" % out)
json.dump(res, open(out + "/confirm.json", "w"), indent=1)
print(pid, {k: v for k, v in res.items() if not k.endswith("tail")})
