// Native replay of solver counterexamples against the real crate (public API only).
// Each sub-command prints one line `RESULT <json-ish>`; a panic inside the library is caught and
// printed as `RESULT panic <message>`.
use raptorq::{Decoder, Encoder, EncoderBuilder, EncodingPacket, ObjectTransmissionInformation, PayloadId,
              SourceBlockDecoder, SourceBlockEncoder, SourceBlockEncodingPlan};
use std::panic;

fn arg<T: std::str::FromStr>(a: &[String], i: usize) -> T
where
    T::Err: std::fmt::Debug,
{
    a[i].parse::<T>().unwrap()
}

fn catch<F: FnOnce() -> String + panic::UnwindSafe>(f: F) -> String {
    panic::set_hook(Box::new(|_| {}));
    match panic::catch_unwind(f) {
        Ok(s) => s,
        Err(e) => {
            let msg = if let Some(s) = e.downcast_ref::<String>() {
                s.clone()
            } else if let Some(s) = e.downcast_ref::<&str>() {
                s.to_string()
            } else {
                "?".to_string()
            };
            format!("panic {}", msg.replace('\n', " "))
        }
    }
}

fn hex(b: &[u8]) -> String {
    b.iter().map(|x| format!("{:02x}", x)).collect()
}

fn unhex(s: &str) -> Vec<u8> {
    (0..s.len() / 2).map(|i| u8::from_str_radix(&s[2 * i..2 * i + 2], 16).unwrap()).collect()
}

fn main() {
    let a: Vec<String> = std::env::args().skip(1).collect();
    let out = match a[0].as_str() {
        // oti-new F T Z N Al
        "oti-new" => catch(|| {
            let o = ObjectTransmissionInformation::new(arg(&a, 1), arg(&a, 2), arg(&a, 3), arg(&a, 4), arg(&a, 5));
            format!("accepted {} {} {} {} {}", o.transfer_length(), o.symbol_size(), o.source_blocks(), o.sub_blocks(), o.symbol_alignment())
        }),
        // derive F P WS   (through EncoderBuilder-equivalent public path: with data of length F when small)
        "derive" => catch(|| {
            let f: u64 = arg(&a, 1);
            let mut b = EncoderBuilder::new();
            b.set_max_packet_size(arg(&a, 2));
            b.set_decoder_memory_requirement(arg(&a, 3));
            let data = vec![0x5Au8; f as usize];
            let enc = b.build(&data);
            let o = enc.get_config();
            format!("derived {} {} {} {} {}", o.transfer_length(), o.symbol_size(), o.source_blocks(), o.sub_blocks(), o.symbol_alignment())
        }),
        // with-defaults F P
        "with-defaults" => catch(|| {
            let o = ObjectTransmissionInformation::with_defaults(arg(&a, 1), arg(&a, 2));
            format!("derived {} {} {} {} {}", o.transfer_length(), o.symbol_size(), o.source_blocks(), o.sub_blocks(), o.symbol_alignment())
        }),
        // repair K T start count  -> ids and payloads of repair packets of a K-symbol block of bytes i*7+3
        "repair" => catch(|| {
            let k: usize = arg(&a, 1);
            let t: u16 = arg(&a, 2);
            let data: Vec<u8> = (0..k * t as usize).map(|i| (i * 7 + 3) as u8).collect();
            let cfg = ObjectTransmissionInformation::new(data.len() as u64, t, 1, 1, 1);
            let enc = SourceBlockEncoder::new(0, &cfg, &data);
            let ps = enc.repair_packets(arg(&a, 3), arg(&a, 4));
            let v: Vec<String> = ps.iter().map(|p| format!("{}:{}", p.payload_id().encoding_symbol_id(), hex(p.data()))).collect();
            format!("packets {}", v.join(","))
        }),
        // encode-block T hexdata repair_esi... -> source + the listed repair ESIs
        "encode-block" => catch(|| {
            let t: u16 = arg(&a, 1);
            let data = unhex(&a[2]);
            let k = data.len() / t as usize;
            let cfg = ObjectTransmissionInformation::new(data.len() as u64, t, 1, 1, 1);
            let enc = SourceBlockEncoder::new(0, &cfg, &data);
            let mut v: Vec<String> = enc.source_packets().iter().map(|p| format!("{}:{}", p.payload_id().encoding_symbol_id(), hex(p.data()))).collect();
            for e in &a[3..] {
                let esi: u32 = e.parse().unwrap();
                let ps = enc.repair_packets(esi - k as u32, 1);
                v.push(format!("{}:{}", ps[0].payload_id().encoding_symbol_id(), hex(ps[0].data())));
            }
            format!("packets {}", v.join(","))
        }),
        // decode-block T K esi:hex,... -> decoded hex or none (packets delivered one by one)
        "decode-block" => catch(|| {
            let t: u16 = arg(&a, 1);
            let k: u64 = arg(&a, 2);
            let cfg = ObjectTransmissionInformation::new(k * t as u64, t, 1, 1, 1);
            let mut dec = SourceBlockDecoder::new(0, &cfg, k * t as u64);
            let mut res = None;
            let mut at = 0;
            for (i, item) in a[3].split(',').enumerate() {
                let (e, h) = item.split_once(':').unwrap();
                let p = EncodingPacket::new(PayloadId::new(0, e.parse().unwrap()), unhex(h));
                if res.is_none() {
                    res = dec.decode(std::iter::once(p));
                    at = i + 1;
                }
            }
            match res {
                Some(d) => format!("decoded after={} {}", at, hex(&d)),
                None => "none".to_string(),
            }
        }),
        // roundtrip F T Z N Al drop_mod repair seed -> encodes bytes (i*31+7)^(i>>5), drops every drop_mod-th source
        // packet (0 = none), adds `repair` repair packets per block, shuffles with a seeded LCG, feeds one by one
        "roundtrip" => catch(|| {
            let f: usize = arg(&a, 1);
            let data: Vec<u8> = (0..f).map(|i| (((i * 31 + 7) ^ (i >> 5)) & 0xFF) as u8).collect();
            let cfg = ObjectTransmissionInformation::new(f as u64, arg(&a, 2), arg(&a, 3), arg(&a, 4), arg(&a, 5));
            let enc = Encoder::new(&data, cfg);
            let drop_mod: usize = arg(&a, 6);
            let repair: u32 = arg(&a, 7);
            let mut state: u64 = arg::<u64>(&a, 8).wrapping_mul(6364136223846793005).wrapping_add(1442695040888963407);
            let mut packets = vec![];
            for block in enc.get_block_encoders() {
                for (i, p) in block.source_packets().into_iter().enumerate() {
                    if drop_mod > 0 && i % drop_mod == 0 {
                        continue;
                    }
                    packets.push(p);
                }
                packets.extend(block.repair_packets(0, repair));
            }
            for i in (1..packets.len()).rev() {
                state = state.wrapping_mul(6364136223846793005).wrapping_add(1442695040888963407);
                let j = (state >> 33) as usize % (i + 1);
                packets.swap(i, j);
            }
            let mut dec = Decoder::new(cfg);
            let mut res = None;
            let mut wrong_early = false;
            for p in packets {
                if let Some(d) = dec.decode(p) {
                    if d != data {
                        wrong_early = true;
                    }
                    res = Some(d);
                    break;
                }
            }
            match res {
                Some(d) => format!("decoded equal={} len={} wrong={}", d == data, d.len(), wrong_early),
                None => "none".to_string(),
            }
        }),
        // flavours K T : the same block through every public construction path; prints one line of packets per path
        "flavours" => catch(|| {
            let k: usize = arg(&a, 1);
            let t: u16 = arg(&a, 2);
            let data: Vec<u8> = (0..k * t as usize).map(|i| (((i * 97 + 13) ^ (i >> 4)) & 0xFF) as u8).collect();
            let cfg = ObjectTransmissionInformation::new(data.len() as u64, t, 1, 1, 1);
            let esis: Vec<u32> = vec![0, 1, 7, 1 << 20, (1 << 24) - 1 - k as u32];
            let show = |enc: &SourceBlockEncoder| -> String {
                let mut v: Vec<String> = enc.source_packets().iter().map(|p| hex(p.data())).collect();
                for e in &esis {
                    v.push(hex(enc.repair_packets(*e, 1)[0].data()));
                }
                v.join(",")
            };
            let first = SourceBlockEncoder::new(0, &cfg, &data);          // fresh solve (or cache fill)
            let second = SourceBlockEncoder::new(0, &cfg, &data);         // std: served from the plan cache
            let plan = SourceBlockEncodingPlan::generate(k as u16);
            let planned = SourceBlockEncoder::with_encoding_plan(0, &cfg, &data, &plan);
            let obj = Encoder::new(&data, cfg);
            let via_object = show(&obj.get_block_encoders()[0]);
            // and a decode of a fixed erasure pattern
            let mut dec = SourceBlockDecoder::new(0, &cfg, data.len() as u64);
            let mut res = None;
            let mut pk: Vec<EncodingPacket> = first.source_packets().into_iter().skip(k.min(2)).collect();
            pk.extend(first.repair_packets(3, 4));
            for p in pk {
                if res.is_none() {
                    res = dec.decode(std::iter::once(p));
                }
            }
            format!("flavours\nNEW {}\nCACHED {}\nPLANNED {}\nOBJECT {}\nDECODED {}", show(&first), show(&second), show(&planned), via_object,
                    match res { Some(d) => hex(&d), None => "none".to_string() })
        }),
        // object-vs-blocks F T Z : every block encoder inside Encoder::new against a standalone SourceBlockEncoder::new and an
        // explicitly planned one over the same (zero-padded) block bytes: source and repair packets must be identical
        "object-vs-blocks" => catch(|| {
            let f: usize = arg(&a, 1);
            let t: u16 = arg(&a, 2);
            let z: u8 = arg(&a, 3);
            let data: Vec<u8> = (0..f).map(|i| (((i * 61 + 5) ^ (i >> 2)) & 0xFF) as u8).collect();
            let cfg = ObjectTransmissionInformation::new(f as u64, t, z, 1, 1);
            let enc = Encoder::new(&data, cfg);
            let offsets = raptorq::calculate_block_offsets(&data, &cfg);
            let mut out = vec![];
            for (i, (start, end)) in offsets.iter().enumerate() {
                let mut block = data[*start..(*end).min(f)].to_vec();
                block.resize(end - start, 0);
                let k = block.len() / t as usize;
                let alone = SourceBlockEncoder::new(i as u8, &cfg, &block);
                let planned = SourceBlockEncoder::with_encoding_plan(i as u8, &cfg, &block, &SourceBlockEncodingPlan::generate(k as u16));
                let inside = &enc.get_block_encoders()[i];
                let same = inside.source_packets() == alone.source_packets()
                    && inside.repair_packets(0, 4) == alone.repair_packets(0, 4)
                    && planned.repair_packets(0, 4) == alone.repair_packets(0, 4)
                    && inside.repair_packets(1 << 20, 2) == alone.repair_packets(1 << 20, 2);
                out.push(format!("{}:{}:{}", i, k, same));
            }
            format!("blocks {}", out.join(","))
        }),
        "plan" => catch(|| {
            let p = SourceBlockEncodingPlan::generate(arg(&a, 1));
            let q = SourceBlockEncodingPlan::generate(arg(&a, 1));
            format!("plan equal={}", p == q)
        }),
        other => format!("unknown sub-command {}", other),
    };
    println!("RESULT {}", out);
}
